"""C10 — addresses, keys, key hashes, signatures and chain ids survive the optimized binary form.

Small-scope exhaustive exploration over a collision-forcing payload alphabet.  For every kind (tz1-tz4 / KT1 / sr1
addresses x entrypoints, txr1 through `tx_rollup_l2_address`, key hashes, edpk/sppk/p2pk/BLpk keys, 64-byte signatures
under every prefix, 96-byte BLS signatures, chain ids) and every payload whose first byte, second byte and last byte
range over the values the decoder could sniff (00..04, ff / 00,01,ff), with two fillers:
  * `T.from_micheline_value(v.to_micheline_value(mode))` for mode in optimized / legacy_optimized gives the same value
    (same kind, same payload, same entrypoint; signatures compared by their bytes) and the optimized form is a bytes literal;
  * the same through `v.pack()` / `T.unpack` and the real PACK / UNPACK instructions;
  * `blind_unpack` of the optimized bytes: WHEN it answers with an address / key-hash string, it is the original one
    (anything else it answers is not judged).
Kinds are read from the implementation's answer with an independent Base58Check decoder that looks at the BINARY prefix.
"""
from __future__ import annotations

from mc.engine.report import Result
from mc.ref import base58 as b58
from mc.ref import mtypes as T

ID = 'C10'
LEVEL = 'exploration'
RULE = ('every (kind, payload, entrypoint) of the alphabet is one value; per value 2 render/parse round trips, 2 pack/unpack '
        'round trips (method and instruction) and one blind_unpack are evaluations.  non-trivial = distinct values whose '
        'optimized bytes could be taken for another frame (first byte 00..04, last byte 00) or that carry an entrypoint / '
        'a non-generic signature prefix / 96 bytes')
BOUND = {
    'quick': 'payload = first byte {00,01,02,03,04,ff} x last byte {00,01,ff} x fillers {00,a5}; entrypoints {none, a, default, '
             '31 chars, a.b_1, a%b, default_admin, defaults, set_default, x.default.y, de, Default, a%default}; 7 address kinds, 4 key-hash kinds, 4 key kinds, 5 signature prefixes, chain ids',
    'thorough': 'first byte all 256 x second byte {00,01,02,03,04,ff} x last byte {00,01,ff} x fillers {00,a5}; same kinds; '
                'entrypoints as quick plus {root, do, Z}',
}
ASSUMPTIONS = [
    'the decoders depend on a payload only through its length, its first two bytes and its last byte (forge.py sniffs nothing else), '
    'so the alphabet covers every class of the "all 20-byte hashes" quantifier; fillers 00 and a5 guard against that being wrong',
    'a signature written with a curve-specific prefix is the same value as the generic spelling of the same bytes',
    '%default is the same value as no entrypoint',
    'blind_unpack answers other than address / key-hash strings are not judged (the statement does not cover them)',
    'keys are not required to be valid curve points (the implementation does not check, neither does the check)',
]
LEVEL_TEXT = ('exhaustive over a class-covering alphabet (every value of the bytes the decoders look at, two fillers for the '
              'rest): decides the sniffing logic for all payloads under the stated assumption, not a per-value proof')

ADDR_KINDS = ['tz1', 'tz2', 'tz3', 'tz4', 'KT1', 'sr1', 'txr1']
EP31 = 'abcdefghijklmnopqrstuvwxyz01234'
# near-misses of the one name with a special encoding: longer names that begin / end with it or contain it, and a piece of it
NEAR_DEFAULT = ['default_admin', 'defaults', 'set_default', 'x.default.y', 'de', 'Default', 'a%default']
EPS = {'quick': ['', 'a', 'default', EP31, 'a.b_1', 'a%b'] + NEAR_DEFAULT,
       'thorough': ['', 'a', 'default', EP31, 'a.b_1', 'a%b', 'root', 'do', 'Z'] + NEAR_DEFAULT + ['fault', 'default%default', 'defaul']}
KEY_LEN = {'edpk': 32, 'sppk': 33, 'p2pk': 33, 'BLpk': 48}
SIG_LEN = {'sig': 64, 'edsig': 64, 'spsig1': 64, 'p2sig': 64, 'BLsig': 96}
ALL_B58 = ADDR_KINDS + list(KEY_LEN) + list(SIG_LEN) + ['Net']


def payloads(n, tier):
    firsts = (0, 1, 2, 3, 4, 0xff) if tier == 'quick' else range(256)
    seconds = (None,) if tier == 'quick' else (0, 1, 2, 3, 4, 0xff)
    for f in firsts:
        for s in seconds:
            for l in (0, 1, 0xff):
                for fill in (0x00, 0xa5):
                    b = bytearray([fill]) * n
                    b[0] = f
                    if s is not None:
                        b[1] = s
                    b[-1] = l
                    yield bytes(b)


def groups(tier):
    """(group name, type expr, kind, length, entrypoints)"""
    out = []
    for k in ADDR_KINDS:
        out.append((f'address {k}', {'prim': 'tx_rollup_l2_address' if k == 'txr1' else 'address'}, k, 20, EPS[tier]))
    for k in T.KH_KINDS:
        out.append((f'key_hash {k}', {'prim': 'key_hash'}, k, 20, ['']))
    for k, n in KEY_LEN.items():
        out.append((f'key {k}', {'prim': 'key'}, k, n, ['']))
    for k, n in SIG_LEN.items():
        out.append((f'signature {k}', {'prim': 'signature'}, k, n, ['']))
    out.append(('chain_id', {'prim': 'chain_id'}, 'Net', 4, ['']))
    return out


def shards(tier, seed):
    g = groups(tier)
    if tier == 'quick':
        return [(i, 0, 1) for i in range(len(g))]
    return [(i, c, 8) for i in range(len(g)) for c in range(8)]


# ------------------------------------------------------------------------------------------------ reference
def ref_bytes(prim, kind, payload, ep):
    if prim in ('address', 'tx_rollup_l2_address'):
        e = '' if ep == 'default' else ep
        if kind == 'txr1':
            return b'\x02' + payload + b'\x00' + e.encode()
        return T.address_bytes((kind, payload, e))
    if prim == 'key_hash':
        return T.key_hash_bytes((kind, payload))
    if prim == 'key':
        return T.key_bytes((kind, payload))
    return payload


def parse(s):
    """Independent reading of a base58 value: (kind by BINARY prefix, payload, entrypoint) or None."""
    if not isinstance(s, str):
        return None
    body, sep, ep = s.partition('%')
    for k in ALL_B58:
        try:
            p = b58.dec(k, body)
        except Exception:
            continue
        if not body.startswith(k):
            return None
        return (k, p, '' if ep == 'default' else ep)
    return None


def same(prim, a, b):
    """a, b: parse() results.  Signatures are the same value under any prefix of the right length."""
    if a is None or b is None:
        return False
    if prim == 'signature':
        return a[1] == b[1]
    return a == b


def klass(prim, kind, payload, ep):
    if prim == 'key_hash':
        if kind == 'tz1' and payload[0] <= 3:
            return 'key_hash tz1 whose digest starts 00..03'
        if kind != 'tz1' and payload[-1] == 0:
            return 'key_hash tz2/tz3/tz4 whose digest ends 00'
        return 'key_hash'
    if prim in ('address', 'tx_rollup_l2_address'):
        fam = 'implicit' if kind in T.KH_KINDS else kind
        if '%' in ep:
            return 'address with an entrypoint containing %'
        return f'address {fam}' + (' with entrypoint' if ep and ep != 'default' else '')
    if prim == 'key':
        return f'key {kind}'
    if prim == 'signature':
        return f'signature of {len(payload)} bytes'
    return prim


# ------------------------------------------------------------------------------------------------ implementation
_CTX = None
_INS = {}


def _ctx():
    global _CTX
    if _CTX is None:
        from pytezos.context.impl import ExecutionContext
        _CTX = ExecutionContext()
    return _CTX


def mk(type_expr, s):
    from pytezos.michelson.types.base import MichelsonType
    cls = MichelsonType.match(type_expr)
    return cls, cls.from_micheline_value({'string': s})


def observe_value(type_expr, s):
    """All observations for one value; each entry is a plain jsonable thing."""
    from pytezos.michelson.instructions.generic import PackInstruction
    from pytezos.michelson.micheline import Micheline, blind_unpack
    from pytezos.michelson.stack import MichelsonStack
    obs = {}
    try:
        cls, obj = mk(type_expr, s)
    except Exception as e:
        return {'literal': ('raise', f'{type(e).__name__}: {e}'[:200])}
    obs['literal'] = obj.value
    for mode in ('optimized', 'legacy_optimized'):
        try:
            m = obj.to_micheline_value(mode)
        except Exception as e:
            obs[mode] = ('render-raise', f'{type(e).__name__}: {e}'[:200])
            continue
        obs[mode + '_form'] = m
        try:
            obs[mode] = ('ok', cls.from_micheline_value(m).value)
        except Exception as e:
            obs[mode] = ('parse-raise', f'{type(e).__name__}: {e}'[:200])
    try:
        packed = obj.pack()
        obs['packed'] = packed.hex()
        try:
            obs['unpack'] = ('ok', cls.unpack(packed).value)
        except Exception as e:
            obs['unpack'] = ('parse-raise', f'{type(e).__name__}: {e}'[:200])
    except Exception as e:
        obs['unpack'] = ('render-raise', f'{type(e).__name__}: {e}'[:200])
    try:
        st = MichelsonStack([mk(type_expr, s)[1]])
        PackInstruction.execute(st, [], _ctx())
        key = type_expr['prim']
        ins = _INS.get(key)
        if ins is None:
            ins = _INS[key] = Micheline.match({'prim': 'UNPACK', 'args': [type_expr]})
        obs['PACK'] = bytes(st.items[0].value).hex()
        ins.execute(st, [], _ctx())
        res = st.items[0]
        obs['UNPACK'] = ('parse-raise', 'None') if res.item is None else ('ok', res.item.value)
    except Exception as e:
        obs['UNPACK'] = ('render-raise', f'{type(e).__name__}: {e}'[:200])
    m = obs.get('optimized_form')
    if isinstance(m, dict) and isinstance(m.get('bytes'), str):
        try:
            bu = blind_unpack(bytes.fromhex(m['bytes']))
            obs['blind'] = bu if isinstance(bu, str) else {'hex': bytes(bu).hex()} if isinstance(bu, (bytes, bytearray)) else repr(bu)
        except Exception as e:
            obs['blind'] = ('raise', f'{type(e).__name__}: {e}'[:200])
    return obs


def check_value(group, type_expr, kind, payload, ep, r: Result):
    prim = type_expr['prim']
    s = b58.enc(kind, payload) + ('%' + ep if ep else '')
    want = (kind, payload, '' if ep == 'default' else ep)
    kl = klass(prim, kind, payload, ep)
    case = {'group': group, 'type': type_expr, 'kind': kind, 'payload': payload, 'entrypoint': ep, 'string': s}
    refb = ref_bytes(prim, kind, payload, ep)
    if payload[0] <= 4 or payload[-1] == 0 or ep or kind in ('edsig', 'spsig1', 'p2sig', 'BLsig'):
        r.nt((prim, refb, kind if prim != 'signature' else ''))
    obs = observe_value(type_expr, s)
    if isinstance(obs['literal'], tuple):
        r.ev()
        r.out('literal rejected')
        r.viol(f'valid base58 literal rejected: {kl}', case, f'{prim} "{s}" -> {obs["literal"]}')
        return
    bad = []
    for label, what in (('optimized', 'optimized form'), ('legacy_optimized', 'legacy_optimized form'),
                        ('unpack', 'pack() / unpack()'), ('UNPACK', 'PACK / UNPACK instructions')):
        r.ev()
        got = obs.get(label) or ('render-raise', 'no observation')
        if label in ('optimized', 'legacy_optimized'):
            form = obs.get(label + '_form')
            if got[0] != 'render-raise' and not (isinstance(form, dict) and set(form) == {'bytes'}):
                r.viol(f'{what} of {kl} is not a bytes literal', case, f'{prim} "{s}" -> {form}')
        if got[0] != 'ok':
            r.out(f'{label}|{got[0]}')
            how = 'cannot be rendered' if got[0] == 'render-raise' else 'cannot be read back'
            bad.append((what, how, f'{prim} "{s}" ({refb.hex()}): {got[1]}'))
            continue
        back = parse(got[1])
        if same(prim, back, want):
            r.out(f'{label}|same value')
        elif back is None:
            r.out(f'{label}|unreadable answer')
            bad.append((what, f'reads back as something that is not a {prim}', f'{prim} "{s}" -> {got[1]!r}'))
        elif back[0] != kind and prim != 'signature':
            r.out(f'{label}|other kind')
            bad.append((what, 'is read back as another kind', f'{prim} "{s}" ({refb.hex()}) -> "{got[1]}" ({back[0]})'))
        else:
            r.out(f'{label}|other value')
            bad.append((what, 'is read back as a different value', f'{prim} "{s}" ({refb.hex()}) -> "{got[1]}"'))
    if len(bad) == 4 and len({b[1] for b in bad}) == 1:
        bad = [('optimized form (both optimized modes, pack()/unpack(), PACK/UNPACK)', bad[0][1], bad[0][2])]
    for what, how, detail in bad:
        r.viol(f'{what} of {kl} {how}', case, detail)
    # blind_unpack
    r.ev()
    bu = obs.get('blind')
    back = parse(bu) if isinstance(bu, str) else None
    if back is not None and back[0] in ADDR_KINDS:
        if prim in ('address', 'tx_rollup_l2_address', 'key_hash') and back == want:
            r.out('blind|original address')
        else:
            r.out('blind|another address')
            r.viol(f'blind_unpack reads the bytes of {kl} as a different address / key hash', case,
                   f'blind_unpack({obs["optimized_form"]["bytes"]}) -> "{bu}", the bytes are the optimized form the implementation gives for '
                   f'{prim} "{s}" (reference: {refb.hex()})')
    else:
        r.no_verdict += 1
        if back is not None:
            r.out(f'blind|{"original" if same(prim, back, want) else "another"} {("key" if back[0] in KEY_LEN else "signature" if back[0] in SIG_LEN else "chain id")}')
        else:
            r.out('blind|' + ('text' if isinstance(bu, str) else 'bytes' if isinstance(bu, dict) else 'missing' if bu is None else 'other'))


def run_shard(spec, tier):
    gi, chunk, nchunks = spec
    group, type_expr, kind, n, eps = groups(tier)[gi]
    r = Result()
    last = None
    for i, payload in enumerate(payloads(n, tier)):
        if i % nchunks != chunk:
            continue
        for ep in eps:
            check_value(group, type_expr, kind, payload, ep, r)
            case = {'group': group, 'type': type_expr, 'kind': kind, 'payload': payload, 'entrypoint': ep}
            if last is None:
                r.sample(case)
            last = case
    if last is not None:
        r.sample(last)
    return r


def replay(case):
    r = Result()
    check_value(case['group'], case['type'], case['kind'], case['payload'], case['entrypoint'], r)
    return [(d, v['cases'][0]['detail']) for d, v in r.violations.items()]


def observe(case):
    s = b58.enc(case['kind'], case['payload']) + ('%' + case['entrypoint'] if case['entrypoint'] else '')
    return observe_value(case['type'], s)
