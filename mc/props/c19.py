"""C19 -- macro expansions have their specified Michelson meaning.

Exploration: EVERY macro name of every family up to a length bound is written as Michelson text, parsed by the real
parser (so the real `expand_macro` runs) and executed by the real interpreter (`Interpreter.execute`, the default
parser path) on stacks of matching shape whose leaves are pairwise distinct.  The result is compared with the macro's
DEFINITION evaluated directly on Python values by `mc/ref/macrodef.py` (build the tree / walk the path / functional
update / apply the body) -- not with another expansion.  UNP..R o P..R = identity (both orders) for every tree shape.

Names the reference does not define (PAAIR, PAIIR, ...: every string over {P,A,I} up to a length is tried) get no
verdict; whether the parser accepts them is recorded.  Reference-defined names the parser rejects are outside the
statement ("every macro name the parser accepts") and are recorded as such.
"""
from __future__ import annotations

import itertools

from mc.engine.report import Result
from mc.ref import macrodef as M

ID = 'C19'
LEVEL = 'exploration'
RULE = ('every macro name (6 ops x CMP/IF/IFCMP/ASSERT_/ASSERT_CMP, FAIL, ASSERT, ASSERT_NONE/SOME/LEFT/RIGHT, IF_SOME, IF_RIGHT, '
        'D I^n P, D U^n P, every PAIR/UNPAIR tree shape, every C[AD]+R / SET_C[AD]+R / MAP_C[AD]+R path up to the bound) x '
        'annotation variants x code-argument bodies x input stacks (pairwise distinct leaves, with and without extra '
        'elements below, int-only and mixed-type leaves; every value class for value-dependent macros).  non-trivial = '
        'distinct (macro, annotations, bodies, stack) that the parser accepted and the reference defines; names the '
        'reference does not define are enumerated (all strings over {P,A,I}) and get no verdict')
BOUND = {
    'quick': 'trees <= 6 leaves (63 shapes) + all 1080 strings P[PAI]{3..6}R and UN-; D I/U^n P n<=6; paths <= 4',
    'thorough': 'trees <= 8 leaves (624 shapes) + all 9828 strings P[PAI]{3..8}R and UN-; D I/U^n P n<=9; paths <= 6',
}
ASSUMPTIONS = [
    'macro meanings are those of the "Macros" chapter of the Michelson reference as transcribed in mc/ref/macrodef.py '
    '(validated against the Octez macro vectors recorded in tests/.../test_repl/test_macros.py)',
    'annotations do not change the values a macro computes; only values (not type annotations) are compared',
    'code arguments are taken from a library of 9 bodies that touch only the top of their stack, plus one (MAP_CxR only) that reads the element below its argument',
    'input stacks are built with PUSH by the same interpreter run; PUSH of int/bool/unit/pair/option/or literals is trusted',
]
LEVEL_TEXT = ('exhaustive over macro names up to the bound and over the listed stacks; the reference is a transcription of the '
              'documented definitions, not Octez itself')

OPS = ['EQ', 'NEQ', 'LT', 'GT', 'LE', 'GE']

# --- code-argument library: key -> (Michelson text, python function on a stack) ---------------------


def _fail5(s):
    raise M.Failwith(5)


BODIES = {
    'id': ('{}', lambda s: list(s)),
    'push7': ('{ PUSH int 7 }', lambda s: [7] + s),
    'push8': ('{ PUSH int 8 }', lambda s: [8] + s),
    'add100': ('{ PUSH int 100 ; ADD }', lambda s: [s[0] + 100] + s[1:]),
    'drop_push7': ('{ DROP ; PUSH int 7 }', lambda s: [7] + s[1:]),
    'drop': ('{ DROP }', lambda s: s[1:]),
    'swap': ('{ SWAP }', lambda s: [s[1], s[0]] + s[2:]),
    'fail5': ('{ PUSH int 5 ; FAILWITH }', _fail5),
    'flip': ('{ UNPAIR ; SWAP ; PAIR }', lambda s: [(s[0][1], s[0][0])] + s[1:]),
    # a body that reads BELOW its argument: for MAP_C[AD]+R the body must see  component : S  (nothing in between)
    'addbelow': ('{ DUP 2 ; ADD }', lambda s: [s[0] + s[1]] + s[1:]),
}

# --- values <-> JSON, Michelson text ------------------------------------------------------------------


def enc(v):
    if v is None:
        return 'N'
    if v == ():
        return 'U'
    if isinstance(v, (bool, int)):
        return v
    if len(v) == 2 and v[0] == 'Some':
        return ['S', enc(v[1])]
    if len(v) == 2 and v[0] in ('L', 'R') and isinstance(v[0], str):
        return [v[0], enc(v[1])]
    return ['P', enc(v[0]), enc(v[1])]


def dec(j):
    if j == 'N':
        return None
    if j == 'U':
        return ()
    if isinstance(j, (bool, int)):
        return j
    if j[0] == 'S':
        return ('Some', dec(j[1]))
    if j[0] in ('L', 'R'):
        return (j[0], dec(j[1]))
    return (dec(j[1]), dec(j[2]))


def _is(v, tag):
    return isinstance(v, tuple) and len(v) == 2 and isinstance(v[0], str) and v[0] == tag


def ty(v) -> str:
    if v is None or _is(v, 'Some'):
        return '(option int)'
    if v == ():
        return 'unit'
    if isinstance(v, bool):
        return 'bool'
    if isinstance(v, int):
        return 'int'
    if _is(v, 'L') or _is(v, 'R'):
        return '(or int int)'
    return f'(pair {ty(v[0])} {ty(v[1])})'


def lit(v) -> str:
    if v is None:
        return 'None'
    if v == ():
        return 'Unit'
    if isinstance(v, bool):
        return 'True' if v else 'False'
    if isinstance(v, int):
        return str(v)
    if _is(v, 'Some'):
        return f'(Some {lit(v[1])})'
    if _is(v, 'L'):
        return f'(Left {lit(v[1])})'
    if _is(v, 'R'):
        return f'(Right {lit(v[1])})'
    return f'(Pair {lit(v[0])} {lit(v[1])})'


def program(case) -> str:
    stack = [dec(j) for j in case['stack']]
    parts = [f'PUSH {ty(v)} {lit(v)}' for v in reversed(stack)]
    for name, annots, bodies in case['macros']:
        parts.append(' '.join([name] + list(annots) + [BODIES[b][0] for b in bodies]))
    return ' ; '.join(parts)


def impl_to_ref(obj):
    prim = type(obj).prim
    if prim in ('int', 'nat'):
        return int(obj.value)
    if prim == 'bool':
        return bool(obj.value)
    if prim == 'unit':
        return ()
    if prim == 'pair':
        a, b = obj.items
        return (impl_to_ref(a), impl_to_ref(b))
    if prim == 'option':
        return None if obj.item is None else ('Some', impl_to_ref(obj.item))
    if prim == 'or':
        left, right = obj.items      # the absent side is an `undefined` sentinel object
        has_left, has_right = hasattr(type(left), 'prim'), hasattr(type(right), 'prim')
        assert has_left != has_right, obj.items
        return ('L', impl_to_ref(left)) if has_left else ('R', impl_to_ref(right))
    raise AssertionError(f'unexpected value class {prim}')


_INTERP = None


def run_impl(text):
    """-> ('ok', [values]) | ('failwith', repr) | ('error', message) | ('parse-error', message)"""
    global _INTERP
    from pytezos.michelson.parse import MichelsonParserError
    from pytezos.michelson.repl import Interpreter
    if _INTERP is None:
        _INTERP = Interpreter()
    _INTERP.reset()
    res = _INTERP.execute(text)
    if res.error is None:
        return 'ok', [impl_to_ref(x) for x in res.stack.items]
    if isinstance(res.error, MichelsonParserError):
        return 'parse-error', str(res.error)
    args = tuple(str(a) for a in res.error.args)
    if len(args) >= 2 and args[-2] == 'FAILWITH':
        return 'failwith', args[-1]
    return 'error', ' -> '.join(args)[:300]


def run_ref(case):
    """-> ('ok', [values]) | ('failwith', repr)"""
    stack = [dec(j) for j in case['stack']]
    try:
        for name, annots, bodies in case['macros']:
            stack = M.apply(name, [BODIES[b][1] for b in bodies], stack)
    except M.Failwith as f:
        return 'failwith', lit(f.value)
    return 'ok', stack


def _canon(res):
    # strict: True and 1 must not compare equal
    return (res[0], repr([enc(v) for v in res[1]]) if res[0] == 'ok' else res[1])


def family_of(case):
    fams = [M.classify(name)[0] for name, _, _ in case['macros']]
    if len(fams) == 2:
        return 'UNPAIR-tree after PAIR-tree' if fams[0] == 'PAIR-tree' else 'PAIR-tree after UNPAIR-tree'
    return fams[0]


def check(case):
    """-> (outcome label, [(descriptor, detail)])"""
    fam = family_of(case)
    ann = ' (annotated)' if any(a for _, a, _ in case['macros']) else ''
    text = program(case)
    got = run_impl(text)
    if got[0] == 'parse-error':
        return f'{fam}{ann}: parser rejects the spelling (outside the statement)', None
    want = run_ref(case)
    if _canon(got) == _canon(want):
        return f'{fam}{ann}: ' + ('result stack as defined' if got[0] == 'ok' else f'fails with {got[1]} as defined'), []
    detail = f'{text!r}: implementation {got}, definition {want}'
    if len(case['macros']) == 2:
        return f'{fam}: differs', [(f'{fam} is not the identity{ann}', detail)]
    if got[0] == 'ok' and want[0] == 'ok':
        d = f'{fam}{ann}: wrong result stack'
    elif want[0] == 'ok':
        d = f'{fam}{ann}: fails where the definition succeeds'
    elif got[0] == 'ok':
        d = f'{fam}{ann}: succeeds where the definition fails'
    else:
        d = f'{fam}{ann}: fails differently from the definition'
    return f'{fam}: differs', [(d, detail)]


# --- enumeration --------------------------------------------------------------------------------------

MIXED = [3, True, ('R', 7), (4, 54), ('Some', 5), None, ('L', 6), (), False, (8, (58, ())), 9, ('Some', 10)]
TAILS = [[], [91, 92]]


def leaf_stacks(n):
    """Stacks with n pairwise distinct top elements."""
    ints = list(range(1, n + 1))
    mixed = []
    for i in range(n):
        v = MIXED[i % len(MIXED)]
        mixed.append(v if i < len(MIXED) else (v, i))
    return [ints + t for t in TAILS] + [mixed + [91]]


def complete_tree(depth, counter):
    if depth == 0:
        counter[0] += 1
        return counter[0]
    left = complete_tree(depth - 1, counter)
    right = complete_tree(depth - 1, counter)
    return (left, right)


def spine(path, counter):
    """Smallest value on which `path` is defined: pairs along the path, distinct int leaves elsewhere."""
    counter[0] += 1
    if not path:
        return counter[0]
    other = counter[0] + 500
    sub = spine(path[1:], counter)
    return (sub, other) if path[0] == 'A' else (other, sub)


def path_values(path, deeper=False):
    vals = [complete_tree(len(path), [0]), spine(path, [0])]
    if deeper:
        vals.append(complete_tree(len(path) + 1, [0]))
    return vals


def tree_shapes(max_leaves):
    return [s for n in range(3, max_leaves + 1) for s in M.shapes(n)]


def bounds(tier):
    return {'leaves': 6, 'allstr': 6, 'dn': 6, 'path': 4} if tier == 'quick' else {'leaves': 8, 'allstr': 8, 'dn': 9, 'path': 6}


def paths(lo, hi):
    return [''.join(p) for k in range(lo, hi + 1) for p in itertools.product('AD', repeat=k)]


def cases_for(group, tier):
    """Yield cases (dicts) or ('name-only', name) for names to classify without execution."""
    b = bounds(tier)
    J = lambda st: [enc(v) for v in st]  # noqa: E731
    if group.startswith('compare'):
        pairs = [(a, c) for a in (-1, 0, 1) for c in (-1, 0, 1)] + [(-5, 7), (2 ** 70, 2 ** 70 - 1)]
        for op in [group.split(':')[1]]:
            for ann in ([], ['@v']):
                for a, c in pairs:
                    for t in TAILS:
                        yield {'macros': [[f'CMP{op}', ann, []]], 'stack': J([a, c] + t)}
                        for bodies in (['push7', 'push8'], ['id', 'fail5'], ['fail5', 'drop']):
                            yield {'macros': [[f'IFCMP{op}', ann, bodies]], 'stack': J([a, c] + [50] + t)}
                        yield {'macros': [[f'ASSERT_CMP{op}', ann, []]], 'stack': J([a, c] + t)}
                for n in (-2, -1, 0, 1, 2):
                    for t in TAILS:
                        for bodies in (['push7', 'push8'], ['id', 'fail5'], ['fail5', 'drop']):
                            yield {'macros': [[f'IF{op}', ann, bodies]], 'stack': J([n, 50] + t)}
                        yield {'macros': [[f'ASSERT_{op}', ann, []]], 'stack': J([n] + t)}
    elif group == 'assert':
        for ann in ([], ['@v']):
            for t in TAILS + [[(1, 2)]]:
                yield {'macros': [['FAIL', ann, []]], 'stack': J(t)}
                for v in (True, False):
                    yield {'macros': [['ASSERT', ann, []]], 'stack': J([v] + t)}
                for v in (None, ('Some', 5), ('Some', -1)):
                    yield {'macros': [['ASSERT_NONE', ann, []]], 'stack': J([v] + t)}
                    yield {'macros': [['ASSERT_SOME', ann, []]], 'stack': J([v] + t)}
                    for bodies in (['add100', 'push8'], ['drop', 'id'], ['fail5', 'push7'], ['id', 'fail5']):
                        yield {'macros': [['IF_SOME', ann, bodies]], 'stack': J([v] + t)}
                for v in (('L', 5), ('R', 6)):
                    yield {'macros': [['ASSERT_LEFT', ann, []]], 'stack': J([v] + t)}
                    yield {'macros': [['ASSERT_RIGHT', ann, []]], 'stack': J([v] + t)}
                    for bodies in (['add100', 'drop_push7'], ['drop', 'id'], ['fail5', 'add100'], ['id', 'fail5']):
                        yield {'macros': [['IF_RIGHT', ann, bodies]], 'stack': J([v] + t)}
    elif group == 'dip':
        for n in range(2, b['dn'] + 1):
            top = list(range(1, n + 1))
            for ann in ([], ['@v']):
                for body in ('id', 'push7', 'swap', 'drop', 'fail5', 'add100'):
                    yield {'macros': [['D' + 'I' * n + 'P', ann, [body]]], 'stack': J(top + [50, 60])}
                    yield {'macros': [['D' + 'I' * n + 'P', ann, [body]]], 'stack': J(MIXED[:n] + [50, 60, 70])}
                for body in ('id', 'push7'):
                    yield {'macros': [['D' + 'I' * n + 'P', ann, [body]]], 'stack': J(top)}
                for st in leaf_stacks(n):
                    yield {'macros': [['D' + 'U' * n + 'P', ann, []]], 'stack': J(st)}
    elif group.startswith('tree'):
        _, k, m = group.split(':')
        shapes = tree_shapes(b['leaves'])[int(k)::int(m)]
        for shape in shapes:
            n = M.leaves(shape)
            name = M.tree_name(shape) + 'R'
            fields = [f'%f{i}' for i in range(n)]
            for st in leaf_stacks(n):
                for ann in ([], ['@v'], fields, fields[:1], ['@v'] + fields, [':t']):
                    yield {'macros': [[name, ann, []]], 'stack': J(st)}
                value, rest = M.build(shape, st)
                vars_ = [f'@v{i}' for i in range(n)]
                for ann in ([], vars_, vars_[:2], fields):
                    yield {'macros': [['UN' + name, ann, []]], 'stack': J([value] + rest)}
                yield {'macros': [[name, [], []], ['UN' + name, [], []]], 'stack': J(st)}
                yield {'macros': [[name, fields + ['@p'], []], ['UN' + name, vars_, []]], 'stack': J(st)}
                yield {'macros': [['UN' + name, [], []], [name, [], []]], 'stack': J([value] + rest)}
    elif group.startswith('allstr'):
        _, k, m = group.split(':')
        names = [''.join(w) for n in range(3, b['allstr'] + 1) for w in itertools.product('PAI', repeat=n)]
        for w in names[int(k)::int(m)]:
            for name in ('P' + w + 'R', 'UNP' + w + 'R'):
                c = M.classify(name)
                if c is None:
                    yield ('name-only', name)
                elif M.leaves(c[1]) > b['leaves']:
                    # defined, but beyond the leaf bound of the `tree` groups: judge it here on one stack
                    st = leaf_stacks(M.leaves(c[1]))[1]
                    if name.startswith('UN'):
                        value, rest = M.build(c[1], st)
                        st = [value] + rest
                    yield {'macros': [[name, [], []]], 'stack': J(st)}
    elif group.startswith('path'):
        _, kind, k, m = group.split(':')
        if kind == 'CxR':
            for p in paths(2, b['path'])[int(k)::int(m)]:
                for ann in ([], ['%a'], ['@v'], ['%a', '@v']):
                    for v in path_values(p, deeper=True):
                        for t in TAILS:
                            yield {'macros': [[f'C{p}R', ann, []]], 'stack': J([v] + t)}
        elif kind == 'SET':
            for p in paths(1, b['path'])[int(k)::int(m)]:
                for ann in ([], ['%a'], ['@v'], ['%a', '@v']):
                    for v in path_values(p, deeper=True):
                        for x in (1000, (7, 8)):
                            for t in TAILS:
                                yield {'macros': [[f'SET_C{p}R', ann, []]], 'stack': J([v, x] + t)}
        else:
            for p in paths(1, b['path'])[int(k)::int(m)]:
                for ann in ([], ['%a'], ['@v'], ['%a', '@v']):
                    for t in TAILS:
                        for v in path_values(p):
                            for body in ('add100', 'drop_push7', 'id', 'fail5'):
                                yield {'macros': [[f'MAP_C{p}R', ann, [body]]], 'stack': J([v] + t)}
                            # only paths ending in A: the reference expansion of MAP_CDR runs the body on  cdr : pair : S,
                            # so what a body sees below its argument is pinned for MAP_C..AR only
                            if p.endswith('A') and t and isinstance(t[0], int) and not isinstance(t[0], bool):
                                yield {'macros': [[f'MAP_C{p}R', ann, ['addbelow']]], 'stack': J([v] + t)}
                        deep = complete_tree(len(p) + 1, [0])
                        for body in ('flip', 'id', 'drop_push7'):
                            yield {'macros': [[f'MAP_C{p}R', ann, [body]]], 'stack': J([deep] + t)}
    else:
        raise AssertionError(group)


def shards(tier, seed):
    nt = 8 if tier == 'quick' else 48
    out = [f'compare:{op}' for op in OPS] + ['assert', 'dip']
    out += [f'tree:{k}:{nt}' for k in range(nt)]
    out += [f'allstr:{k}:4' for k in range(4)]
    np_ = 4 if tier == 'quick' else 12
    for kind in ('CxR', 'SET', 'MAP'):
        out += [f'path:{kind}:{k}:{np_}' for k in range(np_)]
    return out


_PARSER = None


def parser_accepts(name):
    global _PARSER
    if _PARSER is None:
        from pytezos.michelson.parse import MichelsonParser
        _PARSER = MichelsonParser()
    try:
        _PARSER.parse(name)
        return True
    except Exception:  # noqa
        return False


def run_shard(group, tier):
    r = Result()
    last = None
    for case in cases_for(group, tier):
        r.ev()
        if isinstance(case, tuple):
            name = case[1]
            r.no_verdict += 1
            acc = parser_accepts(name)
            kind = 'UNP..R' if name.startswith('UN') else 'P..R'
            r.out(f'no verdict: {kind} spelling the reference does not define, parser {"accepts" if acc else "rejects"} it')
            if acc and len(name) <= 7:
                r.extra[f'~undef:{name}'] += 1
            continue
        label, viols = check(case)
        r.out(label)
        if viols is None:
            r.no_verdict += 1
            r.extra['~rejected:' + ' '.join([case['macros'][0][0]] + case['macros'][0][1])] += 1
            continue
        r.nt(repr(case))
        for d, detail in viols:
            r.viol(d, case, detail)
        if last is None:
            r.sample(case)
        last = case
    if last is not None:
        r.sample(last)
    return r


def finalize(res, tier):
    undef = sorted(k[7:] for k in res.extra if k.startswith('~undef:'))
    rej = sorted(k[10:] for k in res.extra if k.startswith('~rejected:'))
    for k in [k for k in res.extra if k.startswith('~')]:
        del res.extra[k]
    if undef:
        res.notes.append(f'names accepted by the parser that the reference does not define (no verdict), up to 7 letters: '
                         f'{" ".join(undef[:60])}{" ..." if len(undef) > 60 else ""}')
    if rej:
        res.notes.append('reference-defined macros whose annotated spelling the parser rejects (outside the statement): '
                         + '; '.join(rej[:40]) + (' ...' if len(rej) > 40 else ''))


def replay(case):
    return check(case)[1] or []


def observe(case):
    return list(run_impl(program(case)))
