"""C27 — node errors map to the most specific registered error class.

Exploration, three parts, all against the LIVE registry (RpcError.__handlers__) under every registry configuration
(each subset of four synthetic classes registered for a full identifier / a de-prefixed identifier / a final
component / a category, and - thorough - each subset of the shipped keys switched off):

1. identifiers: every identifier of the forms <name>, <cat>.<name>, <a>.<b>.<c>, proto.<P>.<name>,
   proto.<P>.<cat>.<name>, proto.<P>.<a>.<b>.<name> over a component alphabet made of every component of every key
   in the live registry, two synthetic components and two unregistered ones; x every error list of length 1..3 whose
   last element is the identifier under test (preceding elements: decoys that map to other classes) and the empty list.
2. depth: identifiers with MORE components - a path of 2..4 (thorough 2..5) filler components in front of every
   <cat>.<name> tail, bare (4..6, thorough ..7 components) and behind proto.<P>. (6..7, thorough ..8 components); the
   fillers are an unregistered name, a registered category, a registered final component and a shipped key, so a
   lookup that looks at a fixed position instead of the last / last-but-one component picks a different class.
3. delivery: the same error lists delivered the way a node delivers them - as the JSON body of a failed HTTP answer
   (RpcError.from_response, and the real RpcNode.request behind a fake transport) and as the receipt of a rejected
   operation group (OperationResult.from_operation_group): every layout of 1..3 contents with 0..2 internal operations
   (3 result slots, thorough 4), every status per slot, every choice of attached error trace per non-applied slot.

The oracle is the statement's lookup order (mc/ref/errclass.py) applied to the same live registry.  The registry is
snapshotted and restored around every shard; within a shard all calls share the process, so a lookup that leaves
something behind for a later one is judged by the later one.
"""
from __future__ import annotations

import itertools

from mc.engine.report import Result
from mc.ref import errclass

ID = 'C27'
LEVEL = 'exploration'
RULE = ('(1) every identifier of 6 forms over the component alphabet, (2) every filler path x every <cat>.<name> tail, bare '
        'and proto-prefixed, x every registry configuration x decoy prefixes (error lists of length 0..3); (3) every shallow '
        'identifier through from_response and RpcNode.request, and every operation-group receipt (layout x status x error '
        'trace per result) through from_operation_group.  Non-trivial = distinct (registry, identifier) where at least two '
        'candidate keys of the identifier are registered to different classes, i.e. the lookup order decides the class; '
        'for receipts: distinct (registry, receipt) where two results carry traces whose last errors map to different '
        'classes, i.e. which result ends the list decides the class')
BOUND = {
    'quick': '2 protocols, 9 components (5 shipped + 2 synthetic + 2 unregistered), 6 identifier forms (2457 ids) x 13 decoy '
             'prefixes + empty list; depth: filler paths of length 2..4 (bare) / 2..3 (proto-prefixed) over 4 fillers x 81 tails '
             '(40176 ids of 4..7 components) x 2 prefixes; 16 synthetic-registry subsets x {shipped registry on, off}; '
             'delivery: 270 shallow ids x 2 prefixes through from_response and RpcNode.request per registry; receipts with '
             '<=3 result slots (7 layouts, 31 options per slot: applied | {failed, backtracked, skipped} x 10 traces) x 2 registries',
    'thorough': '3 protocols, same components and forms (3276 ids) x 13 decoy prefixes + empty list; depth: paths 2..4 / 2..3 '
                'in every registry, 2..5 / 2..4 (up to 8 components) and a decoy prefix where all or none of the shipped keys are on; 16 '
                'synthetic-registry subsets x all 32 subsets of the shipped keys; delivery as quick per registry; receipts '
                'with <=4 result slots (13 layouts) x 2 registries',
}
ASSUMPTIONS = [
    'the class of the raised error is type(RpcError.from_errors(errors)); from_response, RpcNode.request and '
    'OperationResult.from_operation_group are driven as well; OperationGroup.autofill / inject build their exception with '
    'the same RpcError.from_errors(OperationResult.errors(group)) composition as from_operation_group (read, not driven)',
    '"category" is unambiguous only when the de-prefixed identifier has exactly two components; for longer identifiers '
    'the first component, the one before the name and the dotted path before the name are all admissible readings and '
    'a case is judged only when all readings demand the same class (otherwise counted as no verdict)',
    'the protocol prefix is proto.<P>. (identifier starts with the component "proto" and has at least three components)',
    'the list of node errors of a rejected operation group is the concatenation, in receipt order (result of a content, then '
    'the results of its internal operations), of the error traces attached to its non-applied results; whether a trace on a '
    '"skipped" result (whose encoding has no error field) counts is left open: both readings must demand the same class',
]
LEVEL_TEXT = ('exhaustive over a small identifier/registry universe built from the live registry; the order of the four '
              'lookups is exercised independently of which classes the library ships because synthetic classes are '
              'registered for each lookup kind in every combination; depth and the delivery paths (HTTP answer, operation '
              'receipt) are enumerated with the same oracle')

SYNTH_KEYS = {'full': 'proto.alpha.zcat.zname', 'deprefixed': 'zcat.zname', 'final': 'zname', 'category': 'zcat'}
UNREG = ['ua', 'ub']
DECOYS = ['proto.alpha.tez.subtraction_underflow', 'proto.alpha.michelson_v1.bad_return', 'ua.ub']
NICE = {'full': 'full identifier', 'deprefixed': 'identifier without protocol prefix', 'final': 'final component',
        'category': 'category', 'generic': 'generic RpcError'}
L_ERRORS, L_RESPONSE, L_REQUEST, L_GROUP = 'from_errors', 'from_response', 'RpcNode.request', 'operation group'
SHALLOW = ('name', 'cat.name', 'proto.P.name', 'proto.P.cat.name')

# receipts
STATUSES = ['applied', 'failed', 'backtracked', 'skipped']
_X, _Y, _U, _Z = ('proto.alpha.michelson_v1.script_rejected', 'proto.alpha.tez.subtraction_underflow', 'proto.alpha.ua.ub',
                  'proto.alpha.zcat.zname')
TRACES = [None, [], [_X], [_Y], [_U], [_Z], [_X, _Y], [_Y, _X], [_U, _X], [_X, _U]]
GROUP_REGISTRIES = [([], []), (list(SYNTH_KEYS), [])]
TZ, KT = 'tz1VSUr8wwNhLAzempoch5d6hLRiTh8Cjcjb', 'KT1BEqzn5Wx8uJrZNvuS9DVHmLvG9td3fDLi'

_cache = {}


def _env():
    """-> (RpcError, snapshot of the shipped registry, synthetic classes by kind)"""
    if not _cache:
        from pytezos.rpc.node import RpcError
        import pytezos.rpc.errors  # noqa: F401  (registers the shipped classes)
        snap = dict(RpcError.__handlers__)
        synth = {}
        try:
            for kind, key in SYNTH_KEYS.items():
                synth[kind] = type('Synth_' + kind, (RpcError,), {}, error_id=key)
        finally:
            RpcError.__handlers__.clear()
            RpcError.__handlers__.update(snap)
        _cache['v'] = (RpcError, snap, synth)
    return _cache['v']


def protocols(tier):
    return ['alpha', '016-PtMumbai'] if tier == 'quick' else ['alpha', '016-PtMumbai', 'genesis']


def components():
    _, snap, _ = _env()
    comps = []
    for key in sorted(snap):
        for c in key.split('.'):
            if c not in comps:
                comps.append(c)
    return comps + ['zcat', 'zname'] + UNREG


def fillers():
    """Components put in front of a <cat>.<name> tail: unregistered, registered category, registered final, a shipped key."""
    _, snap, _ = _env()
    single = sorted((k for k in snap if '.' not in k), key=lambda k: (len(k), k))
    return [UNREG[0], 'zcat', 'zname'] + single[:1]


def identifiers(tier):
    """Simplest first."""
    cs = components()
    ps = protocols(tier)
    for a in cs:
        yield 'name', a
    for a, b in itertools.product(cs, repeat=2):
        yield 'cat.name', f'{a}.{b}'
    for p in ps:
        for a in cs:
            yield 'proto.P.name', f'proto.{p}.{a}'
    for p in ps:
        for a, b in itertools.product(cs, repeat=2):
            yield 'proto.P.cat.name', f'proto.{p}.{a}.{b}'
    for a, b, c in itertools.product(cs, repeat=3):
        yield 'a.b.c', f'{a}.{b}.{c}'
    for p in ps:
        for a, b, c in itertools.product(cs, repeat=3):
            yield 'proto.P.a.b.name', f'proto.{p}.{a}.{b}.{c}'


def deep_identifiers(tier, extra):
    """Identifiers with more components than the forms above, shortest first."""
    cs = components()
    fs = fillers()
    tails = [f'{a}.{b}' for a, b in itertools.product(cs, repeat=2)]
    for n in (2, 3, 4, 5) if extra else (2, 3, 4):
        for path in itertools.product(fs, repeat=n):
            head = '.'.join(path)
            for t in tails:
                yield f'{n + 2} components', f'{head}.{t}'
    for n in (2, 3, 4) if extra else (2, 3):
        for p in protocols(tier):
            for path in itertools.product(fs, repeat=n):
                head = f'proto.{p}.' + '.'.join(path)
                for t in tails:
                    yield f'proto.P + {n + 2} components', f'{head}.{t}'


def prefixes():
    out = [[]]
    for n in (1, 2):
        out += [list(t) for t in itertools.product(DECOYS, repeat=n)]
    return out


def registry_for(synth_on, shipped_off):
    _, snap, synth = _env()
    reg = {k: v for k, v in snap.items() if k not in shipped_off}
    for kind in synth_on:
        reg[SYNTH_KEYS[kind]] = synth[kind]
    return reg


class installed:
    """Install a registry into the live RpcError.__handlers__ dict; restore the snapshot afterwards."""

    def __init__(self, reg):
        self.reg = reg

    def __enter__(self):
        RpcError, _, _ = _env()
        self.h = RpcError.__handlers__
        self.saved = dict(self.h)
        self.h.clear()
        self.h.update(self.reg)

    def __exit__(self, *a):
        self.h.clear()
        self.h.update(self.saved)


# --- the real code, one function per delivery path ---------------------------------------------------------------------
def call(ids, layer=L_ERRORS):
    """Real code.  -> ('ok', class) | ('raised', text) | ('noraise', text)"""
    RpcError, _, _ = _env()
    if layer == L_REQUEST:
        return call_request(ids)
    errors = [{'kind': 'temporary', 'id': i} for i in ids]
    try:
        if layer == L_RESPONSE:
            from mc.fakes import FakeResponse
            e = RpcError.from_response(FakeResponse(500, errors))
        else:
            e = RpcError.from_errors(errors)
    except Exception as ex:  # the statement allows no exception here
        return 'raised', f'{type(ex).__name__}: {ex}'
    return 'ok', type(e)


def call_request(ids):
    """The error list as the body of a failed answer to a real RpcNode.request (fake transport, permanent errors: no retry)."""
    from mc.fakes import FakeResponse, patched_http
    from pytezos.rpc.node import RpcError, RpcNode
    errors = [{'kind': 'permanent', 'id': i} for i in ids]
    node = RpcNode('http://n.invalid')
    with patched_http(lambda **kw: FakeResponse(500, errors), lambda s: None):
        try:
            node.request('GET', 'chains/main/blocks/head')
        except RpcError as e:
            return 'ok', type(e)
        except Exception as ex:
            return 'raised', f'{type(ex).__name__}: {ex}'
    return 'noraise', 'a 500 answer did not raise'


def build_group(layout, slots):
    """layout: internal-operation count per content; slots: (status, trace | None) per result in receipt order."""
    it = iter(slots)

    def result():
        status, ids = next(it)
        res = {'status': status}
        if ids is not None:
            res['errors'] = [{'kind': 'temporary', 'id': i} for i in ids]
        return res

    contents = []
    for ci, n_int in enumerate(layout):
        meta = {'operation_result': result()}
        if n_int:
            meta['internal_operation_results'] = [
                {'kind': 'transaction', 'source': KT, 'destination': TZ, 'amount': '0', 'nonce': k, 'result': result()}
                for k in range(n_int)]
        contents.append({'kind': 'transaction', 'source': TZ, 'destination': KT, 'amount': '0', 'counter': str(ci + 1),
                         'fee': '0', 'gas_limit': '0', 'storage_limit': '0', 'metadata': meta})
    return {'branch': 'BKiHLREqU3JkXfzEDYAkmmfX48gBDtYhMrpA98s7Aq4SzbUAB6M', 'contents': contents}


def call_group(layout, slots):
    from pytezos.operation.result import OperationResult
    RpcError, _, _ = _env()
    try:
        OperationResult.from_operation_group(build_group(layout, slots))
    except RpcError as e:
        return 'ok', type(e)
    except Exception as ex:
        return 'raised', f'{type(ex).__name__}: {ex}'
    return 'noraise', 'the group was not rejected'


# --- oracle -------------------------------------------------------------------------------------------------------
def classify(layer, st, got, exp, last_id, reg, what):
    """exp: set of admissible (kind, value).  -> (label, verdict); verdict None (holds) | 'NV' | (descriptor, detail)."""
    RpcError, _, _ = _env()
    tag = '' if layer == L_ERRORS else f'[{layer}] '
    if st == 'noraise':
        return 'no exception (no verdict)', 'NV'       # nothing is raised: the statement says nothing
    if st == 'raised':
        d = 'from_errors raises instead of returning an error' if layer == L_ERRORS else \
            tag + 'raises something that is not an RpcError'
        return 'raised', (d, f'{what}: {got}')
    if not isinstance(got, type) or not issubclass(got, RpcError):
        return 'not-an-rpc-error', (tag + 'from_errors returns something that is not an RpcError', f'{what}: {got!r}')
    if last_id is None:
        if got is RpcError:
            return 'empty list -> generic', None
        return 'empty list -> specific', (tag + 'empty error list not mapped to the generic RpcError', f'{what}: got {got.__name__}')
    wants = {RpcError if kind == errclass.GENERIC else val for kind, val in exp}
    if len(wants) > 1:
        return 'readings disagree (no verdict)', 'NV'
    want, = wants
    kind = min((k for k, _ in exp), key=lambda k: (errclass.KINDS + (errclass.GENERIC,)).index(k))
    if got is want:
        return f'matched on {NICE[kind]}', None
    # classify what the implementation matched on instead
    got_kind = 'generic' if got is RpcError else 'unrelated'
    if got is not RpcError:
        rs = errclass.readings(last_id)
        for k in errclass.KINDS:
            if any(kk == k and reg.get(key) is got for keys in rs for kk, key in keys):
                got_kind = k
                break
    exp_txt = 'the generic RpcError' if kind == errclass.GENERIC else f'the class registered for the {NICE[kind]}'
    if got_kind == 'generic':
        got_txt = 'the generic RpcError'
    elif got_kind == 'unrelated':
        got_txt = 'a class registered for none of the keys of the last error'
    else:
        got_txt = f'the class registered for the {NICE[got_kind]}'
    return f'WRONG {NICE[kind]} -> {got_txt}', (f'{tag}expected {exp_txt}, got {got_txt}',
                                                f'{what} registry keys={sorted(reg)} expected {want.__name__} '
                                                f'(key kind: {kind}), got {got.__name__}')


def judge(ids, reg, layer=L_ERRORS, exp=None):
    """Registry must be installed."""
    st, got = call(ids, layer)
    if exp is None:
        exp = errclass.expected(ids, reg)
    return classify(layer, st, got, exp, ids[-1] if ids else None, reg, f'errors={ids}')


def judge_group(layout, slots, reg):
    st, got = call_group(layout, slots)
    lists = errclass.group_error_lists(slots)
    exp = errclass.expected_group(slots, reg)
    last = next((l[-1] for l in lists if l), None)
    return classify(L_GROUP, st, got, exp, last, reg, f'layout={list(layout)} results={slots}')


def slot_options():
    return [('applied', None)] + [(s, t) for s in STATUSES[1:] for t in TRACES]


def layouts(tier):
    cap = 3 if tier == 'quick' else 4
    out = []
    for n in (1, 2, 3):
        for lay in itertools.product(range(3), repeat=n):
            if n + sum(lay) <= cap:
                out.append(lay)
    return sorted(out, key=lambda lay: (len(lay) + sum(lay), len(lay), lay))


# --- exploration --------------------------------------------------------------------------------------------------
def shards(tier, seed):
    _, snap, _ = _env()
    kinds = list(SYNTH_KEYS)
    synth_sets = [[k for i, k in enumerate(kinds) if m >> i & 1] for m in range(16)]
    shipped = sorted(snap)
    if tier == 'quick':
        offs = [[], shipped]
    else:
        offs = [[k for i, k in enumerate(shipped) if m >> i & 1] for m in range(2 ** len(shipped))]
    out = [('ids', s, o) for o in offs for s in synth_sets]
    n_opt = len(slot_options())
    out += [('group', s, o, list(lay), first) for s, o in GROUP_REGISTRIES for lay in layouts(tier) for first in range(n_opt)]
    return out


def run_shard(spec, tier):
    if spec[0] == 'group':
        return run_group_shard(spec, tier)
    if spec[0] == 'ids':
        spec = spec[1:]
    synth_on, shipped_off = spec
    _, snap, _ = _env()
    r = Result()
    reg = registry_for(synth_on, shipped_off)
    pres = prefixes()
    case = None
    base = {'synth': synth_on, 'shipped_off': shipped_off}

    def record(form, layer, ids, exp):
        r.ev()
        label, v = judge(ids, reg, layer, exp)
        r.out(f'{form}: {label}' if layer == L_ERRORS else f'{layer}: {label}')
        if v == 'NV':
            r.no_verdict += 1
        elif v is not None:
            c = dict(base, errors=ids)
            if layer != L_ERRORS:
                c['layer'] = layer
            r.viol(v[0], c, v[1])

    with installed(reg):
        case = dict(base, errors=[])
        for layer in (L_ERRORS, L_RESPONSE, L_REQUEST):
            record('empty', layer, [], None)
        r.sample(case)
        for form, eid in identifiers(tier):
            sens = errclass.order_sensitive(eid, reg)
            if sens:
                r.nt((tuple(synth_on), tuple(shipped_off), eid))
            exp = errclass.expected([eid], reg)
            for pre in pres:
                record(form, L_ERRORS, pre + [eid], exp)
            case = dict(base, errors=pres[-1] + [eid])
            if form in SHALLOW:
                for layer in (L_RESPONSE, L_REQUEST):
                    for pre in (pres[0], [DECOYS[1]]):
                        record(form, layer, pre + [eid], exp)
            if sens and len(r.samples) < 2 and form == 'proto.P.cat.name':
                r.sample(case)
        edge = len(shipped_off) in (0, len(snap))     # all or none of the shipped keys on
        extra = tier != 'quick' and edge
        deep_pres = (pres[0], [DECOYS[0]]) if edge else (pres[0],)
        deep_sampled = False
        for form, eid in deep_identifiers(tier, extra):
            sens = errclass.order_sensitive(eid, reg)
            if sens:
                r.nt((tuple(synth_on), tuple(shipped_off), eid))
            exp = errclass.expected([eid], reg)
            for pre in deep_pres:
                record(form, L_ERRORS, pre + [eid], exp)
            case = dict(base, errors=deep_pres[-1] + [eid])
            if sens and not deep_sampled and form.startswith('proto'):
                r.sample(case)
                deep_sampled = True
    r.sample(case)
    return r


def run_group_shard(spec, tier):
    _, synth_on, shipped_off, layout, first = spec
    RpcError, _, _ = _env()
    r = Result()
    reg = registry_for(synth_on, shipped_off)
    opts = slot_options()
    n_slots = len(layout) + sum(layout)
    case = None
    own = {}                                         # last identifier of a trace -> classes the readings admit for it

    def classes_of(eid):
        if eid not in own:
            own[eid] = frozenset(RpcError if k == errclass.GENERIC else v for k, v in errclass.expected([eid], reg))
        return own[eid]

    with installed(reg):
        for rest in itertools.product(opts, repeat=n_slots - 1):
            slots = [list(opts[first])] + [list(o) for o in rest]
            if all(s == 'applied' for s, _ in slots):
                continue                              # nothing is rejected: outside the statement
            case = {'synth': synth_on, 'shipped_off': shipped_off, 'layer': L_GROUP, 'layout': layout, 'slots': slots}
            r.ev()
            ends = {classes_of(t[-1]) for s, t in slots if s != 'applied' and t}
            if len(ends) >= 2:
                r.nt((tuple(synth_on), tuple(shipped_off), tuple(layout), repr(slots)))
            label, v = judge_group(layout, slots, reg)
            carriers = sorted({s for s, t in slots if t})
            r.out(f'{L_GROUP} ({n_slots} results, traces on {"+".join(carriers) or "none"}): {label}')
            if v == 'NV':
                r.no_verdict += 1
            elif v is not None:
                r.viol(v[0], case, v[1])
            if r.first_case is None:
                r.sample(case)
    if case is not None:
        r.sample(case)
    return r


def _case_parts(case):
    reg = registry_for(case.get('synth', []), case.get('shipped_off', []))
    return reg, case.get('layer', L_ERRORS)


def replay(case):
    reg, layer = _case_parts(case)
    with installed(reg):
        if layer == L_GROUP:
            _, v = judge_group(list(case['layout']), [list(s) for s in case['slots']], reg)
        else:
            _, v = judge(list(case['errors']), reg, layer)
    return [v] if isinstance(v, tuple) else []


def observe(case):
    reg, layer = _case_parts(case)
    with installed(reg):
        if layer == L_GROUP:
            st, got = call_group(list(case['layout']), [list(s) for s in case['slots']])
        else:
            st, got = call(list(case['errors']), layer)
    return [st, got.__name__ if isinstance(got, type) else got]
