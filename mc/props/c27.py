"""C27 — node errors map to the most specific registered error class.

Exploration: every identifier of the forms <name>, <cat>.<name>, <a>.<b>.<c>, proto.<P>.<name>,
proto.<P>.<cat>.<name>, proto.<P>.<a>.<b>.<name> over a component alphabet made of every component of
every key in the LIVE registry (RpcError.__handlers__), two synthetic components and two unregistered
ones; x every registry configuration (each subset of four synthetic classes registered for a full
identifier / a de-prefixed identifier / a final component / a category, and - thorough - each subset of
the shipped keys switched off) x every error list of length 1..3 whose last element is the identifier
under test (preceding elements: decoys that map to other classes) and the empty list.
The real RpcError.from_errors is called; the oracle is the statement's lookup order (mc/ref/errclass.py)
applied to the same live registry.  The registry is snapshotted and restored around every shard.
"""
from __future__ import annotations

import itertools

from mc.engine.report import Result
from mc.ref import errclass

ID = 'C27'
LEVEL = 'exploration'
RULE = ('every identifier of 6 forms over the component alphabet x every registry configuration x every decoy prefix '
        '(error lists of length 0..3); non-trivial = distinct (registry, identifier) where at least two candidate keys '
        'of the identifier are registered to different classes, i.e. the lookup order decides the class')
BOUND = {
    'quick': '2 protocols, 9 components (5 shipped + 2 synthetic + 2 unregistered), 6 identifier forms (2457 ids), '
             '16 synthetic-registry subsets x {shipped registry on, off}, 13 decoy prefixes (lists of length 1..3) + empty list',
    'thorough': '3 protocols, same components and forms (3276 ids), 16 synthetic-registry subsets x all 32 subsets of the '
                'shipped keys, 13 decoy prefixes + empty list',
}
ASSUMPTIONS = [
    'the class of the raised error is type(RpcError.from_errors(errors)); from_response/request only forward to it',
    '"category" is unambiguous only when the de-prefixed identifier has exactly two components; for longer identifiers '
    'the first component, the one before the name and the dotted path before the name are all admissible readings and '
    'a case is judged only when all readings agree (otherwise counted as no verdict)',
    'the protocol prefix is proto.<P>. (identifier starts with the component "proto" and has at least three components)',
]
LEVEL_TEXT = ('exhaustive over a small identifier/registry universe built from the live registry; the order of the four '
              'lookups is exercised independently of which classes the library ships because synthetic classes are '
              'registered for each lookup kind in every combination')

SYNTH_KEYS = {'full': 'proto.alpha.zcat.zname', 'deprefixed': 'zcat.zname', 'final': 'zname', 'category': 'zcat'}
UNREG = ['ua', 'ub']
DECOYS = ['proto.alpha.tez.subtraction_underflow', 'proto.alpha.michelson_v1.bad_return', 'ua.ub']
NICE = {'full': 'full identifier', 'deprefixed': 'identifier without protocol prefix', 'final': 'final component',
        'category': 'category', 'generic': 'generic RpcError'}

_cache = {}


def _env():
    """-> (RpcError, snapshot of the shipped registry, synthetic classes by kind)"""
    if not _cache:
        from pytezos.rpc.node import RpcError
        import pytezos.rpc.errors  # noqa: F401  (registers the shipped classes)
        snap = dict(RpcError.__handlers__)
        synth = {}
        try:
            for kind, key in SYNTH_KEYS.items():
                synth[kind] = type('Synth_' + kind, (RpcError,), {}, error_id=key)
        finally:
            RpcError.__handlers__.clear()
            RpcError.__handlers__.update(snap)
        _cache['v'] = (RpcError, snap, synth)
    return _cache['v']


def protocols(tier):
    return ['alpha', '016-PtMumbai'] if tier == 'quick' else ['alpha', '016-PtMumbai', 'genesis']


def components():
    _, snap, _ = _env()
    comps = []
    for key in sorted(snap):
        for c in key.split('.'):
            if c not in comps:
                comps.append(c)
    return comps + ['zcat', 'zname'] + UNREG


def identifiers(tier):
    """Simplest first."""
    cs = components()
    ps = protocols(tier)
    for a in cs:
        yield 'name', a
    for a, b in itertools.product(cs, repeat=2):
        yield 'cat.name', f'{a}.{b}'
    for p in ps:
        for a in cs:
            yield 'proto.P.name', f'proto.{p}.{a}'
    for p in ps:
        for a, b in itertools.product(cs, repeat=2):
            yield 'proto.P.cat.name', f'proto.{p}.{a}.{b}'
    for a, b, c in itertools.product(cs, repeat=3):
        yield 'a.b.c', f'{a}.{b}.{c}'
    for p in ps:
        for a, b, c in itertools.product(cs, repeat=3):
            yield 'proto.P.a.b.name', f'proto.{p}.{a}.{b}.{c}'


def prefixes():
    out = [[]]
    for n in (1, 2):
        out += [list(t) for t in itertools.product(DECOYS, repeat=n)]
    return out


def registry_for(synth_on, shipped_off):
    _, snap, synth = _env()
    reg = {k: v for k, v in snap.items() if k not in shipped_off}
    for kind in synth_on:
        reg[SYNTH_KEYS[kind]] = synth[kind]
    return reg


class installed:
    """Install a registry into the live RpcError.__handlers__ dict; restore the snapshot afterwards."""

    def __init__(self, reg):
        self.reg = reg

    def __enter__(self):
        RpcError, _, _ = _env()
        self.h = RpcError.__handlers__
        self.saved = dict(self.h)
        self.h.clear()
        self.h.update(self.reg)

    def __exit__(self, *a):
        self.h.clear()
        self.h.update(self.saved)


def call(ids):
    """Real code.  -> ('ok', class) | ('raised', text)"""
    RpcError, _, _ = _env()
    errors = [{'kind': 'temporary', 'id': i} for i in ids]
    try:
        e = RpcError.from_errors(errors)
    except Exception as ex:  # the statement allows no exception here
        return 'raised', f'{type(ex).__name__}: {ex}'
    return 'ok', type(e)


def judge(ids, reg):
    """-> (label, verdict) with verdict None (holds), 'NV' (no verdict) or (descriptor, detail).  Registry must be installed."""
    RpcError, _, _ = _env()
    st, got = call(ids)
    if st == 'raised':
        return 'raised', ('from_errors raises instead of returning an error', f'errors={ids}: {got}')
    if not isinstance(got, type) or not issubclass(got, RpcError):
        return 'not-an-rpc-error', ('from_errors returns something that is not an RpcError', f'errors={ids}: {got!r}')
    exp = errclass.expected(ids, reg)
    if not ids:
        if got is RpcError:
            return 'empty list -> generic', None
        return 'empty list -> specific', ('empty error list not mapped to the generic RpcError', f'got {got.__name__}')
    if len(exp) > 1:
        return 'category ambiguous (no verdict)', 'NV'
    (kind, val), = exp
    want = RpcError if kind == errclass.GENERIC else val
    if got is want:
        return f'matched on {NICE[kind]}', None
    # classify what the implementation matched on instead
    got_kind = 'generic' if got is RpcError else 'unrelated'
    if got is not RpcError:
        rs = errclass.readings(ids[-1])
        for k in errclass.KINDS:
            if any(kk == k and reg.get(key) is got for keys in rs for kk, key in keys):
                got_kind = k
                break
    got_txt = NICE.get(got_kind, 'an unrelated identifier (not the last error?)')
    d = f'expected the class registered for the {NICE[kind]}, got the class registered for the {got_txt}' \
        if got_kind != 'generic' else f'expected the class registered for the {NICE[kind]}, got the generic RpcError'
    return f'WRONG {NICE[kind]} -> {got_txt}', (d, f'errors={ids} registry keys={sorted(reg)} expected {want.__name__} '
                                                     f'(key kind: {kind}), got {got.__name__}')


def shards(tier, seed):
    _, snap, _ = _env()
    kinds = list(SYNTH_KEYS)
    synth_sets = [[k for i, k in enumerate(kinds) if m >> i & 1] for m in range(16)]
    shipped = sorted(snap)
    if tier == 'quick':
        offs = [[], shipped]
    else:
        offs = [[k for i, k in enumerate(shipped) if m >> i & 1] for m in range(2 ** len(shipped))]
    return [(s, o) for o in offs for s in synth_sets]


def run_shard(spec, tier):
    synth_on, shipped_off = spec
    r = Result()
    reg = registry_for(synth_on, shipped_off)
    pres = prefixes()
    case = None
    with installed(reg):
        case = {'synth': synth_on, 'shipped_off': shipped_off, 'errors': []}
        r.ev()
        label, v = judge([], reg)
        r.out(label)
        if isinstance(v, tuple):
            r.viol(v[0], case, v[1])
        r.sample(case)
        for form, eid in identifiers(tier):
            sens = errclass.order_sensitive(eid, reg)
            if sens:
                r.nt((tuple(synth_on), tuple(shipped_off), eid))
            for pre in pres:
                ids = pre + [eid]
                case = {'synth': synth_on, 'shipped_off': shipped_off, 'errors': ids}
                r.ev()
                label, v = judge(ids, reg)
                r.out(f'{form}: {label}')
                if v == 'NV':
                    r.no_verdict += 1
                elif v is not None:
                    r.viol(v[0], case, v[1])
            if sens and len(r.samples) < 2 and form == 'proto.P.cat.name':
                r.sample(case)
    r.sample(case)
    return r


def replay(case):
    reg = registry_for(case.get('synth', []), case.get('shipped_off', []))
    with installed(reg):
        _, v = judge(list(case['errors']), reg)
    return [v] if isinstance(v, tuple) else []


def observe(case):
    reg = registry_for(case.get('synth', []), case.get('shipped_off', []))
    with installed(reg):
        st, got = call(list(case['errors']))
    return [st, got.__name__ if isinstance(got, type) else got]
