"""C16 — arithmetic and numeric conversions are exact.

Exhaustive over a boundary alphabet: every instruction of the statement x every operand type combination the
Michelson typing table allows x every pair of operand values from per-type boundary sets goes through the real
instruction class on a real stack and is compared with big-integer reference arithmetic (mc.ref.meval.arith/unary,
validated against the Octez opcode vectors), including the failure cases (mutez overflow, shifts above 256) and the
round trips BYTES;INT and BYTES;NAT.
"""
from __future__ import annotations

from mc import adapter as A
from mc import impl as M
from mc.engine.report import Result
from mc.ref import meval as E
from mc.ref import mtypes as T

ID = 'C16'
LEVEL = 'exploration'
LEVEL_TEXT = ('exhaustive over the full product of per-type boundary sets for every instruction x admissible operand types: decides the '
              'arithmetic / conversion / failure logic at every byte boundary, sign and limit named in the statement; says nothing about values between the boundaries')
RULE = ('instruction x admissible operand types x ALL value combinations from per-type boundary sets (signs, zero, 2^(8k)-1, 2^(8k), '
        '2^(8k-1), the mutez limit 2^63, shift counts 255/256/257); non-trivial = distinct (instr, types, operands) whose reference '
        'result is not a plain success on small numbers (|operands| > 255, a failure, or an option result)')
BOUND = {'quick': 'boundary sets of 20-48 values per type, full product', 'thorough': 'boundary sets of ~110 values per type (k<=16), full product'}
ASSUMPTIONS = ['bytes are big-endian bit strings (Octez Script_bytes): AND truncates to the shorter operand, OR/XOR left-pad the shorter, '
               'LSL grows the result by ceil(n/8) bytes, LSR drops floor(n/8) bytes, shifts above 64000 fail; no Octez vector for these is shipped in the repo']

INT, NAT, BYTES, BOOL, MUTEZ, TS = E.INT, E.NAT, E.BYTES, E.BOOL, E.MUTEZ, E.TS


def ints(kmax):
    s = {0, 1, -1, 2, -2, 3, 7, -7, 10, 100, 255, 256, 257, -255, -256, -257, 2**63 - 1, 2**63, -2**63, 2**64, 2**64 + 1, -(2**64)}
    for k in range(1, kmax + 1):
        for v in (2**(8 * k) - 1, 2**(8 * k), 2**(8 * k - 1), 2**(8 * k - 1) - 1):
            s.add(v)
            s.add(-v)
    return sorted(s, key=lambda x: (abs(x), x < 0))


def domains(tier):
    kmax = 9 if tier == 'quick' else 16
    iv = ints(kmax)
    if tier == 'quick':
        iv = [x for x in iv if abs(x) <= 2**72][:64]
    nv = [x for x in iv if x >= 0]
    mv = [x for x in nv if x < 2**63]
    bv = [b'', b'\x00', b'\x01', b'\x7f', b'\x80', b'\xff', b'\x00\x80', b'\x00\x7f', b'\xff\x7f', b'\xff\x80', b'\x80\x00', b'\x01\x00',
          b'\x00\x00', b'\xff\xff', b'\x00\xff\xff', b'\x7f' + b'\xff' * 8, b'\x80' + b'\x00' * 8, b'\x01' + b'\x00' * 32]
    return {INT: iv, NAT: nv, MUTEZ: mv, TS: iv if tier == 'thorough' else iv[:40], BYTES: bv, BOOL: [False, True]}


def shards(tier, seed):
    out = []
    for p, table in E.ARITH.items():
        for (ta, tb) in table:
            out.append(('bin', p, ta, tb))
    for p in ('ABS', 'NEG', 'ISNAT', 'INT', 'NAT', 'BYTES', 'NOT'):
        for t in E.UNARY[p]:
            out.append(('un', p, t, None))
    out.append(('rt', 'BYTES;INT', INT, None))
    out.append(('rt', 'BYTES;NAT', NAT, None))
    return out


def nontrivial(vals, ref):
    if ref[0] != 'ok':
        return True
    if any(isinstance(v, int) and not isinstance(v, bool) and abs(v) > 255 for v in vals):
        return True
    rt = ref[1][0]
    return rt[0] == 'option' or any(isinstance(v, bytes) for v in vals)


def ref_eval(kind, p, ta, a, tb, b):
    try:
        if kind == 'bin':
            return ('ok', E.arith(p, ta, a, tb, b))
        if kind == 'un':
            return ('ok', E.unary(p, ta, a))
        t1, v1 = E.unary('BYTES', ta, a)
        return ('ok', E.unary('INT' if p.endswith('INT') else 'NAT', t1, v1))
    except E.RuntimeFail as e:
        return ('fail', str(e))


def impl_eval(kind, p, ta, a, tb, b, ctx):
    code = [M.P(x) for x in p.split(';')]
    slots = [(ta, a)] + ([(tb, b)] if kind == 'bin' else [])
    out, stack = M.run_impl(code, slots, ctx)
    if out[0] != 'ok':
        return out
    if len(stack.items) != 1:
        return ('crash', 'stack', f'{len(stack.items)} items left')
    try:
        return ('ok', (A.impl_type(stack.items[0]), A.from_impl(stack.items[0])))
    except Exception as e:
        return ('crash', 'unreadable result', f'{type(e).__name__}: {e}')


def check(kind, p, ta, a, tb, b, ctx=None):
    ref = ref_eval(kind, p, ta, a, tb, b)
    got = impl_eval(kind, p, ta, a, tb, b, ctx)
    tys = T.t_str(ta) + ((' ' + T.t_str(tb)) if tb else '')
    if ref[0] == 'ok':
        if got[0] == 'ok':
            if got[1] == ref[1]:
                return ref, got, None
            what = 'wrong type' if got[1][0] != ref[1][0] else 'wrong value'
            return ref, got, (f'{p} {tys}: {what}', f'{p} on {a!r} {b!r}: got {got[1]}, expected {ref[1]}')
        cls = _fail_class(ref, got)
        return ref, got, (f'{p} {tys}: fails ({cls})', f'{p} on {a!r} {b!r}: {got}, expected {ref[1]}')
    # reference fails at run time: the implementation must fail too (not with a FAILWITH value, not by crashing outside the interpreter)
    if got[0] == 'error':
        return ref, got, None
    return ref, got, (f'{p} {tys}: does not fail on {ref[1]}', f'{p} on {a!r} {b!r}: {got}')


def _fail_class(ref, got):
    if got[0] == 'error':
        msg = ' '.join(got[1])
        if 'unexpected types' in msg or 'expected one of' in msg or ('expected ' in msg and ' got ' in msg and 'natural' not in msg):
            return 'operand types not supported'
        if 'overflow' in msg:
            return 'spurious overflow'
        return 'runtime error where ' + ('None' if ref[1][1] is None else 'a value') + ' is specified'
    return got[0]


def run_shard(spec, tier):
    kind, p, ta, tb = spec
    D = domains(tier)
    r = Result()
    ctx = M.make_context()
    bs = D[tb] if kind == 'bin' else [None]
    if kind == 'bin' and p in ('LSL', 'LSR'):
        bs = [0, 1, 7, 8, 9, 63, 64, 255, 256, 257, 1000, 2**20]
    last = None
    for a in D[ta]:
        for b in bs:
            ref, got, v = check(kind, p, ta, a, tb, b, ctx)
            r.ev()
            case = {'kind': kind, 'p': p, 'ta': list(ta), 'a': a, 'tb': list(tb) if tb else None, 'b': b}
            if nontrivial([a, b], ref):
                r.nt((p, ta, tb, a, b))
            r.out(f'{ref[0]}:{"None" if ref[0] == "ok" and ref[1][1] is None else ref[0]}/{got[0]}')
            if v:
                r.viol(v[0], case, v[1])
            if last is None:
                r.sample(case)
            last = case
    r.sample(last)
    return r


def replay(case):
    ta = tuple(case['ta'])
    tb = tuple(case['tb']) if case.get('tb') else None
    _, _, v = check(case['kind'], case['p'], ta, case['a'], tb, case['b'])
    return [v] if v else []


def observe(case):
    ta = tuple(case['ta'])
    tb = tuple(case['tb']) if case.get('tb') else None
    return impl_eval(case['kind'], case['p'], ta, case['a'], tb, case['b'], None)
