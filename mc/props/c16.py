"""C16 — arithmetic and numeric conversions are exact.

Exhaustive over a boundary alphabet: every instruction of the statement x every operand type combination the
Michelson typing table allows x every pair of operand values from per-type boundary sets goes through the real
instruction class on a real stack and is compared with big-integer reference arithmetic (mc.ref.meval.arith/unary,
validated against the Octez opcode vectors), including the failure cases (mutez overflow, shifts above 256) and the
round trips BYTES;INT and BYTES;NAT.

Three shard families:
* 'base': the full product of the per-type boundary sets (values up to 2^72 quick / 2^128 thorough).
* 'big': the same instructions over a ladder of magnitudes far beyond every fixed-width, floating-point and decimal-text
  representation (2^128 .. 2^16384, 10^308 / 10^309 = the double range, 10^4299 / 10^4300 = CPython's default int<->str
  digit limit, byte strings up to 2 KiB): int and nat are arbitrary precision, so nothing on the way (trace lines,
  intermediate conversions) may make an instruction fail or round.
* 'hist': process history.  Every operand tuple of a small alphabet is put, consecutively and in ONE process, through
  every instruction and every operand type combination that admits it (the same number as int, nat, mutez and timestamp;
  the same bytes under INT and NAT; the same pair under ADD, SUB, MUL ...), in alternating type order, and the whole sweep
  is then repeated backwards.  Every call is judged on its own against the reference, so any state the code under test
  carries from one call to a later one (memo, cache, mutated class attribute) shows as a wrong result of the later call.

The harness never sends a number through str()/int() text when it is longer than 600 digits (operands are then built with
the type's from_value, the constructor the instructions themselves use for their results) and prints numbers with
mc.ref.micheline.dec_of / hex, so it does not depend on the interpreter's int<->str digit limit.
"""
from __future__ import annotations

from mc import adapter as A
from mc import impl as M
from mc.engine.report import Result
from mc.ref import meval as E
from mc.ref import mtypes as T
from mc.ref.micheline import dec_of

ID = 'C16'
LEVEL = 'exploration'
LEVEL_TEXT = ('exhaustive over the full product of per-type boundary sets for every instruction x admissible operand types: decides the '
              'arithmetic / conversion / failure logic at every byte boundary, sign and limit named in the statement, at magnitudes from 0 '
              'to 2^16384 (past the double range and the decimal-text limit of the runtime), and under every two-call history over a small '
              'operand alphabet (same operands under another type or instruction earlier in the process); says nothing about values '
              'between the boundaries or about histories that need other operands')
RULE = ('instruction x admissible operand types x ALL value combinations from per-type boundary sets (signs, zero, 2^(8k)-1, 2^(8k), '
        '2^(8k-1), the mutez limit 2^63, shift counts 255/256/257); big shards: the same product over a magnitude ladder (2^k-1, 2^k and '
        '10^d-1, 10^d around the word, double and decimal-text limits, long byte strings); hist shards: for every operand tuple of a '
        'small alphabet ALL admissible (instruction, operand types) calls consecutively in one process, type order alternating from '
        'tuple to tuple, then the whole sweep backwards, each call judged; host shards: every binary call, on the operand pairs the '
        'reference FAILS on (evenly thinned to a cap) and as many it answers, executed inside the body another instruction runs - an on-chain '
        'view reached through SELF_ADDRESS ; VIEW (whole script through ContractInterface.interpret), MAP over a list, a LAMBDA run by '
        'EXEC, an IF branch: must fail / answer exactly as on the bare stack; non-trivial = distinct (instr, types, operands) whose '
        'reference result is not a plain success on small numbers (|operands| > 255, a failure, an option result, bytes)')
BOUND = {'quick': 'base: boundary sets of 20-48 values per type (<= 2^72), full product; big: 45 ints / 23 nats from 2^128 to 2^16384 and '
                  '10^308..10^4300, 13 byte strings up to 2048 bytes, full product; hist: 22 ints + 9 byte strings + 2 bools, all '
                  'tuples x all admissible calls, forward and backward; host: <=7 failing + as many answered pairs per call x 4 hosts',
         'thorough': 'base: boundary sets of ~110 values per type (k<=16), full product; big: 191 ints / 96 nats from 2^96 to 2^32768 '
                     'and 10^19..10^4301, 24 byte strings up to 4096 bytes, full product; hist: 57 ints + 9 byte strings + 2 bools, '
                     'all tuples x all admissible calls, forward and backward; host: <=25 failing + as many answered pairs per call x 4 hosts'}
ASSUMPTIONS = ['bytes are big-endian bit strings (Octez Script_bytes): AND truncates to the shorter operand, OR/XOR left-pad the shorter, '
               'LSL grows the result by ceil(n/8) bytes, LSR drops floor(n/8) bytes, shifts above 64000 fail; no Octez vector for these is shipped in the repo',
               'operands longer than 600 decimal digits are placed on the stack with <type>.from_value (no Micheline text), the constructor '
               'the instructions use for their own results']

INT, NAT, BYTES, BOOL, MUTEZ, TS = E.INT, E.NAT, E.BYTES, E.BOOL, E.MUTEZ, E.TS
UN_PRIMS = ('ABS', 'NEG', 'ISNAT', 'INT', 'NAT', 'BYTES', 'NOT')
ROUND_TRIPS = (('BYTES;INT', INT), ('BYTES;NAT', NAT))
BIG_TYPES = (INT, NAT, TS, BYTES)
TEXT_SAFE = 10 ** 600          # below the smallest digit limit the interpreter can be set to (640)
HIST_SHARDS = {'quick': 4, 'thorough': 16}
SIZE_TEXT = {'word': '', 'double': 'from 2^64 to 2^1024', 'text': 'from 2^1024 to 4300 decimal digits', 'beyond': 'of more than 4300 decimal digits'}
_W64, _W1024, _TEXT = 2**64, 2**1024, 10**4300


# ---------------------------------------------------------------- printing without str(int)
def show(v) -> str:
    if isinstance(v, bool) or v is None or isinstance(v, str):
        return repr(v)
    if isinstance(v, int):
        if abs(v) < 10 ** 40:
            return dec_of(v)
        h = f'{abs(v):x}'
        return f"{'-' if v < 0 else ''}0x{h[:10]}..{h[-10:]}({abs(v).bit_length()} bits)"
    if isinstance(v, bytes):
        h = v.hex()
        return '0x' + (h if len(h) <= 48 else f'{h[:12]}..{h[-12:]}({len(v)} bytes)')
    if isinstance(v, (tuple, list)):
        return '(' + ', '.join(show(x) for x in v) + ')'
    return repr(v)


# ---------------------------------------------------------------- alphabets
def ints(kmax):
    s = {0, 1, -1, 2, -2, 3, 7, -7, 10, 100, 255, 256, 257, -255, -256, -257, 2**63 - 1, 2**63, -2**63, 2**64, 2**64 + 1, -(2**64)}
    for k in range(1, kmax + 1):
        for v in (2**(8 * k) - 1, 2**(8 * k), 2**(8 * k - 1), 2**(8 * k - 1) - 1):
            s.add(v)
            s.add(-v)
    return sorted(s, key=lambda x: (abs(x), x < 0))


def domains(tier):
    kmax = 9 if tier == 'quick' else 16
    iv = ints(kmax)
    if tier == 'quick':
        iv = [x for x in iv if abs(x) <= 2**72][:64]
    nv = [x for x in iv if x >= 0]
    mv = [x for x in nv if x < 2**63]
    bv = [b'', b'\x00', b'\x01', b'\x7f', b'\x80', b'\xff', b'\x00\x80', b'\x00\x7f', b'\xff\x7f', b'\xff\x80', b'\x80\x00', b'\x01\x00',
          b'\x00\x00', b'\xff\xff', b'\x00\xff\xff', b'\x7f' + b'\xff' * 8, b'\x80' + b'\x00' * 8, b'\x01' + b'\x00' * 32]
    return {INT: iv, NAT: nv, MUTEZ: mv, TS: iv if tier == 'thorough' else iv[:40], BYTES: bv, BOOL: [False, True],
            'shift': [0, 1, 7, 8, 9, 63, 64, 255, 256, 257, 1000, 2**20]}


def big_domains(tier):
    """Magnitudes beyond every fixed-width / floating / text representation: 2^k around the 128-bit word, the double range
    (2^1024, 10^308 < max double < 10^309) and the default decimal-text limit of the runtime (10^4299 has 4300 digits,
    2^14284 < 10^4300 < 2^14285); neighbours -1 (all ones) and, thorough, +1."""
    if tier == 'quick':
        ks, ds, around = (128, 512, 1024, 4096, 14285, 16384), (308, 309, 4299, 4300), (-1, 0)
        lens = (16, 128, 1786, 2048)
    else:
        ks = (96, 128, 192, 256, 384, 512, 768, 1023, 1024, 1025, 1536, 2048, 3072, 4096, 8192, 14284, 14285, 16384, 32768)
        ds, around = (19, 38, 39, 77, 78, 308, 309, 640, 641, 4299, 4300, 4301), (-1, 0, 1)
        lens = (16, 32, 128, 1024, 1786, 2048, 4096)
    s = {0, 1, -1, 255, -256}
    for base in [2**k for k in ks] + [10**d for d in ds]:
        for d in around:
            s.add(base + d)
            s.add(-(base + d))
    iv = sorted(s, key=lambda x: (abs(x), x < 0))
    nv = [x for x in iv if x >= 0]
    bv = [b'', b'\x80', b'\x00\x80']
    for n in lens:
        bv += [b'\x80' + b'\x00' * (n - 1), b'\x7f' + b'\xff' * (n - 1), b'\xff' * n][:3 if tier == 'thorough' or n in (16, 1786) else 2]
    return {INT: iv, NAT: nv, TS: iv, BYTES: bv, MUTEZ: [0, 1, 10**6, 2**62, 2**63 - 1], BOOL: [False, True],
            'shift': [0, 1, 8, 255, 256, 257, 1000, 64000, 64001, 2**128]}


def hist_universe(tier):
    iv = [0, 1, -1, 2, 127, 128, -128, -129, 255, 256, 257, -256, 32767, 32768, 65535, -32768, 2**63 - 1, 2**63, -(2**63), 2**64 - 1, 2**64, -(2**64)]
    if tier != 'quick':
        s = set(iv)
        for k in range(1, 9):
            for v in (2**(8 * k) - 1, 2**(8 * k), 2**(8 * k - 1)):
                s.add(v)
                s.add(-v)
        iv = sorted(s, key=lambda x: (abs(x), x < 0))
    bv = [b'', b'\x00', b'\x01', b'\x7f', b'\x80', b'\xff', b'\x00\x80', b'\x80\x00', b'\xff\xff']
    return iv + bv + [False, True]


def fits(v, t) -> bool:
    if t == BOOL:
        return isinstance(v, bool)
    if t == BYTES:
        return isinstance(v, bytes)
    if not isinstance(v, int) or isinstance(v, bool):
        return False
    return v >= 0 if t == NAT else 0 <= v < 2**63 if t == MUTEZ else t in (INT, TS)


def calls_for(a, b):
    """Every well-typed call of the statement's instructions on the operand tuple: (kind, prim, ta, tb)."""
    if b is None:
        out = [('un', p, t, None) for p in UN_PRIMS for t in E.UNARY[p] if fits(a, t)]
        return out + [('rt', p, t, None) for p, t in ROUND_TRIPS if fits(a, t)]
    return [('bin', p, ta, tb) for p, table in E.ARITH.items() for (ta, tb) in table if fits(a, ta) and fits(b, tb)]


def shards(tier, seed):
    out = [('hist', i, HIST_SHARDS[tier]) for i in range(HIST_SHARDS[tier])]   # first: each sweep starts in a fresh process
    out += [('host', i, HOST_SHARDS) for i in range(HOST_SHARDS)]
    for fam in ('base', 'big'):
        for p, table in E.ARITH.items():
            for (ta, tb) in table:
                if fam == 'base' or ta in BIG_TYPES or tb in BIG_TYPES:
                    out.append((fam, 'bin', p, ta, tb))
        for p in UN_PRIMS:
            for t in E.UNARY[p]:
                if fam == 'base' or t in BIG_TYPES:
                    out.append((fam, 'un', p, t, None))
        for p, t in ROUND_TRIPS:
            out.append((fam, 'rt', p, t, None))
    return out


# ---------------------------------------------------------------- one call: reference, implementation, verdict
def nontrivial(vals, ref):
    if ref[0] != 'ok':
        return True
    if any(isinstance(v, int) and not isinstance(v, bool) and abs(v) > 255 for v in vals):
        return True
    rt = ref[1][0]
    return rt[0] == 'option' or any(isinstance(v, bytes) for v in vals)


def ref_eval(kind, p, ta, a, tb, b):
    try:
        if kind == 'bin':
            return ('ok', E.arith(p, ta, a, tb, b))
        if kind == 'un':
            return ('ok', E.unary(p, ta, a))
        t1, v1 = E.unary('BYTES', ta, a)
        return ('ok', E.unary('INT' if p.endswith('INT') else 'NAT', t1, v1))
    except E.RuntimeFail as e:
        return ('fail', str(e))


def mk_operand(t, v):
    if t in (INT, NAT, TS) and abs(v) >= TEXT_SAFE:
        return A.mk_type(t).from_value(v)      # no decimal text on the way: see module docstring
    return A.to_impl(t, v)


def impl_eval(kind, p, ta, a, tb, b, ctx):
    from pytezos.michelson.stack import MichelsonStack
    code = [M.P(x) for x in p.split(';')]
    slots = [(ta, a)] + ([(tb, b)] if kind == 'bin' else [])
    try:
        stack = MichelsonStack([mk_operand(t, v) for t, v in slots])
    except Exception as e:
        return ('crash', 'operand not constructible', f'{type(e).__name__}: {str(e)[:200]}')
    out = M.run_on_stack(code, stack, ctx or M.make_context())
    if out[0] != 'ok':
        return out
    if len(stack.items) != 1:
        return ('crash', 'stack', f'{len(stack.items)} items left')
    try:
        return ('ok', (A.impl_type(stack.items[0]), A.from_impl(stack.items[0])))
    except Exception as e:
        return ('crash', 'unreadable result', f'{type(e).__name__}: {e}')


def check(kind, p, ta, a, tb, b, ctx=None):
    ref = ref_eval(kind, p, ta, a, tb, b)
    got = impl_eval(kind, p, ta, a, tb, b, ctx)
    tys = T.t_str(ta) + ((' ' + T.t_str(tb)) if tb else '')
    on = f'{p} on {show(a)} {show(b)}'
    if ref[0] == 'ok':
        if got[0] == 'ok':
            if got[1] == ref[1]:
                return ref, got, None
            what = 'wrong type' if got[1][0] != ref[1][0] else 'wrong value'
            return ref, got, (f'{p} {tys}: {what}', f'{on}: got {show(got[1])}, expected {show(ref[1])}')
        cls = _fail_class(ref, got)
        size = SIZE_TEXT[_magnitude([a, b], ref, False)]     # a failure that depends on the magnitude of the numbers is a different failure
        return ref, got, (f'{p} {tys}: fails ({cls})' + (f' on numbers {size}' if size else ''), f'{on}: {show(got)}, expected {show(ref[1])}')
    # reference fails at run time: the implementation must fail too (not with a FAILWITH value, not by crashing outside the interpreter)
    if got[0] == 'error':
        return ref, got, None
    return ref, got, (f'{p} {tys}: does not fail on {ref[1]}', f'{on}: {show(got)}')


def _fail_class(ref, got):
    if got[0] == 'error':
        msg = ' '.join(got[1])
        if 'unexpected types' in msg or 'expected one of' in msg or ('expected ' in msg and ' got ' in msg and 'natural' not in msg):
            return 'operand types not supported'
        if 'overflow' in msg:
            return 'spurious overflow'
        return 'runtime error where ' + ('None' if ref[1][1] is None else 'a value') + ' is specified'
    return got[0]


def _magnitude(vals, ref, with_bytes=True):
    """Size class of the largest number involved (operands and reference result; with_bytes: a byte string counts as the
    largest number of its length): for the outcome statistics and to keep magnitude-dependent failures apart."""
    m = 0
    todo = list(vals) + ([ref[1][1]] if ref[0] == 'ok' else [])
    while todo:
        v = todo.pop()
        if isinstance(v, bool) or v is None or isinstance(v, str):
            continue
        if isinstance(v, int):
            m = max(m, abs(v))
        elif isinstance(v, bytes):
            m = max(m, 256 ** len(v) - 1) if with_bytes else m
        elif isinstance(v, (tuple, list)):
            todo.extend(v)
    return 'word' if m < _W64 else 'double' if m < _W1024 else 'text' if m < _TEXT else 'beyond'


def _ref_class(ref):
    if ref[0] != 'ok':
        return 'fail'
    v = ref[1][1]
    if v is None:
        return 'None'
    return 'Some' if ref[1][0][0] == 'option' else 'value'


def _case(kind, p, ta, a, tb, b, before=None):
    c = {'kind': kind, 'p': p, 'ta': list(ta), 'a': a, 'tb': list(tb) if tb else None, 'b': b}
    if before is not None:
        c['before'] = [[k, q, list(x), list(y) if y else None] for k, q, x, y in before]
    return c


def _judge(r, fam, kind, p, ta, a, tb, b, ctx, before=None):
    ref, got, v = check(kind, p, ta, a, tb, b, ctx)
    r.ev()
    if nontrivial([a, b], ref):
        r.nt((p, ta, tb, a, b))
    r.out(f'{fam}:{_ref_class(ref)}/{got[0]}:{_magnitude([a, b], ref)}')
    if v:
        detail = v[1]
        if before:
            detail += f' [call {len(before) + 1} on these operands in this process; earlier: ' + ', '.join(
                f'{q} {T.t_str(x)}' + (f' {T.t_str(y)}' if y else '') for _, q, x, y in before[-6:]) + ']'
        r.viol(v[0], _case(kind, p, ta, a, tb, b, before), detail)


# ---------------------------------------------------------------- hosted: the instruction inside a body another instruction runs
HOST_SHARDS = 4
HOSTS = ('view', 'map-list', 'lambda-exec', 'if-branch')   # MAP on an option is not implemented by pytezos (not C16's subject)


def host_pairs(tier, p, ta, tb):
    """Operand pairs of the base domains for one binary call: every pair the reference FAILS on up to a cap, and as many it answers."""
    D = domains(tier)
    bs = D['shift'] if p in ('LSL', 'LSR') else D[tb]
    cap = 6 if tier == 'quick' else 24
    fails, oks = [], []
    for a in D[ta]:
        for b in bs:
            ref = ref_eval('bin', p, ta, a, tb, b)
            (fails if ref[0] == 'fail' else oks).append((a, b, ref))
    step = max(1, len(fails) // cap)
    fails = fails[::step][:cap] + fails[-1:]
    ostep = max(1, len(oks) // max(2, len(fails)))
    return fails + oks[::ostep][:max(2, len(fails))]


def host_run(host, p, ta, a, tb, b):
    """-> ('ok', value | None=not read) | ('error', ..) | ('crash', ..): `p` applied to (a, b) inside the body run by `host`."""
    tam, tbm = T.t_to_micheline(ta), T.t_to_micheline(tb)
    pt = {'prim': 'pair', 'args': [tam, tbm]}
    pv = {'prim': 'Pair', 'args': [T.v_to_micheline(ta, a), T.v_to_micheline(tb, b)]}
    ins = {'prim': p}
    if host == 'view':
        from pytezos import ContractInterface
        from pytezos.michelson.micheline import MichelsonRuntimeError
        unit = {'prim': 'unit'}
        script = [{'prim': 'parameter', 'args': [unit]}, {'prim': 'storage', 'args': [{'prim': 'option', 'args': [unit]}]},
                  {'prim': 'code', 'args': [[{'prim': 'DROP'}, {'prim': 'PUSH', 'args': [pt, pv]}, {'prim': 'SELF_ADDRESS'}, {'prim': 'SWAP'},
                                             {'prim': 'VIEW', 'args': [{'string': 'v'}, unit]}, {'prim': 'NIL', 'args': [{'prim': 'operation'}]},
                                             {'prim': 'PAIR'}]]},
                  {'prim': 'view', 'args': [{'string': 'v'}, pt, unit, [{'prim': 'CAR'}, {'prim': 'UNPAIR'}, ins, {'prim': 'DROP'}, {'prim': 'UNIT'}]]}]
        try:
            res = ContractInterface.from_micheline(script).default().interpret(storage=None)
        except MichelsonRuntimeError as e:
            return ('error', [str(x) for x in e.args][:3])
        except Exception as e:  # noqa
            return ('crash', type(e).__name__, str(e)[:200])
        return ('ok', None) if res.storage is not None else ('none', 'VIEW answered None')
    from pytezos.michelson.stack import MichelsonStack
    body = [{'prim': 'UNPAIR'}, ins]
    if host == 'map-list':
        code = [{'prim': 'NIL', 'args': [pt]}, {'prim': 'PUSH', 'args': [pt, pv]}, {'prim': 'CONS'}, {'prim': 'MAP', 'args': [body]}]
    elif host == 'map-option':
        code = [{'prim': 'PUSH', 'args': [pt, pv]}, {'prim': 'SOME'}, {'prim': 'MAP', 'args': [body]}]
    elif host == 'if-branch':
        code = [{'prim': 'PUSH', 'args': [pt, pv]}, {'prim': 'PUSH', 'args': [{'prim': 'bool'}, {'prim': 'True'}]},
                {'prim': 'IF', 'args': [body, body]}]
    else:  # lambda-exec: the result type is not needed when the body ends in DROP ; UNIT
        code = [{'prim': 'LAMBDA', 'args': [pt, {'prim': 'unit'}, body + [{'prim': 'DROP'}, {'prim': 'UNIT'}]]},
                {'prim': 'PUSH', 'args': [pt, pv]}, {'prim': 'EXEC'}]
    stack = MichelsonStack([])
    out = M.run_on_stack(code, stack, M.make_context())
    if out[0] != 'ok':
        return out
    if len(stack.items) != 1:
        return ('crash', 'stack', f'{len(stack.items)} items left')
    if host == 'lambda-exec':
        return ('ok', None)
    try:
        v = A.from_impl(stack.items[0])
    except Exception as e:  # noqa
        return ('crash', 'unreadable result', f'{type(e).__name__}: {e}')
    if host == 'map-list':
        v = v[0] if isinstance(v, (list, tuple)) and len(v) == 1 else ('?', v)
    elif host == 'map-option':
        v = v[1] if isinstance(v, tuple) and len(v) == 2 and v[0] == 'Some' else ('?', v)
    return ('ok', (A.impl_type(stack.items[0]), v))


def run_host(spec, tier):
    _, part, parts = spec
    r = Result()
    calls = [(p, ta, tb) for p, table in E.ARITH.items() for (ta, tb) in table]
    last = None
    for i, (p, ta, tb) in enumerate(calls):
        if i % parts != part:
            continue
        tys = T.t_str(ta) + ' ' + T.t_str(tb)
        for a, b, ref in host_pairs(tier, p, ta, tb):
            for host in HOSTS:
                r.ev()
                got = host_run(host, p, ta, a, tb, b)
                case = {'kind': 'host', 'host': host, 'p': p, 'ta': list(ta), 'a': a, 'tb': list(tb), 'b': b}
                last = case
                if ref[0] == 'fail' or nontrivial([a, b], ref):
                    r.nt(('host', host, p, ta, tb, a, b))
                r.out(f'host {host}:{_ref_class(ref)}/{got[0]}')
                v = host_verdict(host, p, tys, a, b, ref, got)
                if v:
                    r.viol(v[0], case, v[1])
                if r.evaluations == 1:
                    r.sample(case)
    if last is not None:
        r.sample(last)
    return r


def host_verdict(host, p, tys, a, b, ref, got):
    on = f'{p} on {show(a)} {show(b)} inside {host}'
    if ref[0] == 'fail':
        if got[0] == 'error':
            return None
        return (f'{p} {tys} inside {host}: does not fail on {ref[1]}', f'{on}: {show(got)}')
    if got[0] != 'ok':
        return (f'{p} {tys} inside {host}: fails ({got[0]})', f'{on}: {show(got)}, expected {show(ref[1])}')
    if got[1] is not None and host in ('map-list', 'map-option', 'if-branch'):
        val = got[1][1] if host != 'if-branch' else got[1][1]
        if val != ref[1][1]:
            return (f'{p} {tys} inside {host}: wrong value', f'{on}: got {show(val)}, expected {show(ref[1][1])}')
    return None


# ---------------------------------------------------------------- shards
def run_shard(spec, tier):
    if spec[0] == 'hist':
        return run_hist(spec, tier)
    if spec[0] == 'host':
        return run_host(spec, tier)
    fam, kind, p, ta, tb = spec
    D = domains(tier) if fam == 'base' else big_domains(tier)
    r = Result()
    ctx = M.make_context()
    bs = D[tb] if kind == 'bin' else [None]
    if kind == 'bin' and p in ('LSL', 'LSR'):
        bs = D['shift']
    last = None
    for a in D[ta]:
        for b in bs:
            _judge(r, fam, kind, p, ta, a, tb, b, ctx)
            last = _case(kind, p, ta, a, tb, b)
            if r.evaluations == 1:
                r.sample(last)
    if last is not None:
        r.sample(last)
    return r


def hist_groups(spec, tier):
    """[(a, b | None, calls)]: the operand tuples of this shard, value-major, with all their admissible calls; the order of
    the calls (hence of the operand types: int before nat / nat before int) alternates from one tuple to the next."""
    _, i, n = spec
    U = hist_universe(tier)
    groups = []
    for a in U[i::n]:
        for b in [None] + U:
            calls = calls_for(a, b)
            if calls:
                groups.append((a, b, calls if len(groups) % 2 == 0 else calls[::-1]))
    return groups


def run_hist(spec, tier):
    r = Result()
    ctx = M.make_context()
    groups = hist_groups(spec, tier)
    last = None
    for sweep in (groups, [(a, b, calls[::-1]) for a, b, calls in reversed(groups)]):
        for a, b, calls in sweep:
            for j, (kind, p, ta, tb) in enumerate(calls):
                _judge(r, 'hist', kind, p, ta, a, tb, b, ctx, before=calls[:j])
                if last is None:
                    r.sample(_case(kind, p, ta, a, tb, b, calls[:j]))
                last = (kind, p, ta, a, tb, b, calls[:j])
    if last is not None:
        r.sample(_case(*last))
    return r


# ---------------------------------------------------------------- replay / observe
def _unpack(case):
    return case['kind'], case['p'], tuple(case['ta']), case['a'], (tuple(case['tb']) if case.get('tb') else None), case['b']


def replay(case):
    """Re-runs the earlier calls on the same operands first (history recorded by the hist shards), judging every call."""
    kind, p, ta, a, tb, b = _unpack(case)
    if kind == 'host':
        v = host_verdict(case['host'], p, T.t_str(ta) + ' ' + T.t_str(tb), a, b, ref_eval('bin', p, ta, a, tb, b),
                         host_run(case['host'], p, ta, a, tb, b))
        return [v] if v else []
    ctx = M.make_context()
    out = []
    for k, q, x, y in case.get('before') or []:
        _, _, v = check(k, q, tuple(x), a, tuple(y) if y else None, b, ctx)
        if v:
            out.append(v)
    _, _, v = check(kind, p, ta, a, tb, b, ctx)
    if v:
        out.append(v)
    return out


def observe(case):
    kind, p, ta, a, tb, b = _unpack(case)
    if kind == 'host':
        return host_run(case['host'], p, ta, a, tb, b)
    return impl_eval(kind, p, ta, a, tb, b, None)
