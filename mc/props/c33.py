"""C33 — registered global constants expand wherever they occur.

Small-scope exhaustive input enumeration.  A case is (registered set, script):
  * registered set: up to 3 constants registered in order through the real `ExecutionContext.register_global_constant`;
    each is a type, a datum or code built from a template whose holes are filled with a plain expression, a reference to
    an EARLIER constant of the fitting kind (so the reference graphs are exactly the DAGs over <=3 nodes, incl. the same
    constant used twice and a constant that is nothing but a reference) or the hash of an expression that was never
    registered;
  * script: a fixed parameter/storage/code/view skeleton with 14 typed slots (type, code and data positions: section
    root, nested type, top-level and nested instruction, PUSH type and value, nested datum, datum in a list, LAMBDA
    argument and body, view type and view code); up to 2 (3) slots hold a reference to a registered constant or an
    unknown hash, the rest plain expressions.
Oracle: mc/ref/constants.py (own binary Micheline -> Blake2b -> Base58 `expr` hash; substitution by hash).  The real
`resolve_global_constants(script)` must equal the substitution, must raise iff an unknown hash is reachable from the
script, and must not modify its input or the registered expressions.  A subset goes through
`ContractInterface.from_micheline(script, context)` as well.

Three further families:
  * worlds ('build', 'world'): the statement quantifies over SETS of registered expressions, not over the way a context came
    to hold them.  Every set is put into a context in every order (all permutations) through `register_global_constant`,
    and as a ready-made mapping hash -> expression handed to `ExecutionContext(global_constants=...)` (items in every order;
    this is how `ContractInterface.from_micheline` hands the registry on).  While registering, every root reference is
    judged after every step against the table registered SO FAR (a constant whose inner reference is not registered yet
    must raise, afterwards it must expand); in the finished world the keys, every constant at the root and in a script
    slot and the ContractInterface leg are judged.  Every call into pytezos that builds a world (constructor, each
    registration, reset, registering again) is an observation: a registration that raises although all hashes the constant
    names are in the set is a violation; refusing a constant that names a hash outside the set (Octez does) is no verdict.
  * literal sets ('lit'): one registered constant whose body carries a literal of every encoding-length class (ints of both
    signs with 1, 2, 3 and more zarith bytes, strings / bytes of length 0, short, >255) bare, nested in data and in a PUSH;
    the constant must be found under its Tezos hash (own encoder) and expand in every fitting slot;
  * call histories ('history'): "unknown" is relative to the context asked.  For every constant j of every set, context A
    (whole set) and context B (the set without j) are asked alternately (A-B-A, B-A-B) to expand the same script naming j,
    and A is asked before / after `reset()` / after registering again; every call is judged against the reference with the
    table of the context it was made on.
"""
from __future__ import annotations

import copy
import itertools

from mc.engine.report import Result
from mc.ref import constants as ref

ID = 'C33'
LEVEL = 'exploration'
RULE = ('cases = (registered set, script[, entry point]); sets = every sequence of <=3 constants over the body templates '
        '(3 kinds; 0/1/2 holes; hole = plain | reference to an earlier constant of that kind | never-registered hash); scripts = '
        'skeleton with 14 typed slots, <=2 (<=3) of them a reference / unknown hash (at most one unknown); plus per set: registered keys, every '
        'constant expanded at the root, malformed constant nodes; per set: worlds = the set registered in every order (all permutations; '
        'every root reference judged after every registration step against the table so far) and handed to the constructor as a '
        'mapping in every item order, then keys / roots / one script per constant / ContractInterface leg; per set and constant: call histories A-B-A / B-A-B over two contexts '
        '(with / without that constant) and expand-reset-expand-register-expand on one, script = root node or one occupied slot; literal '
        'sets: one constant per (literal, embedding) over ints of both signs up to 2^64, strings and bytes up to 300 long.  Non-trivial = the script names at least one hash; '
        'distinct by (set, script, entry point, world mode and order)')
BOUND = {
    'quick': 'all sets of <=2 constants (basic templates) and the connected 3-constant sets without dangling hashes x all '
             'scripts with <=2 occupied slots; histories for every constant of every set (3 orders at the root and first fitting slot, A-B-A at the others); '
             'literal sets: 27 literals x 3 data embeddings + 19 PUSH int x scripts with <=1 occupied slot; ContractInterface leg for sets of <=2 constants (scripts with <=1 occupied slot; <=2 for sets of <=1); '
             'worlds: every set x all <=6 registration orders x {register_global_constant, constructor mapping} (ContractInterface leg on every basic-template world)',
    'thorough': 'all sets of <=3 constants (basic templates) x scripts with <=2 occupied slots; sets of <=2 constants over the '
                'extended templates x scripts with <=3 occupied slots; histories and literal sets as quick (literal sets x scripts with <=2 occupied slots); ContractInterface leg for sets of <=2 constants (scripts with <=2 occupied slots); '
                'worlds: every set x all <=6 registration orders x {register_global_constant, constructor mapping} (ContractInterface leg on basic-template worlds of <=2 constants and of 3 with an inner reference; the extended templates yield scripts the type parser rejects for reasons unrelated to constants)',
}
ASSUMPTIONS = [
    'the Tezos expression hash of a registered expression is the script-expression hash of that expression as given to '
    'register_global_constant (reference validated against the three hashes pinned in test_constants.py and two big-map key '
    'hashes in test_micheline.py)',
    'Octez expands nested constants at registration and keys the constant by the hash of the EXPANDED value; whether pytezos '
    'should do the same is not pinned down by the statement: probed, counted as no verdict',
    'a context may be handed its registry as a mapping {Tezos expression hash: expression} (the public global_constants '
    'argument; ContractInterface.from_micheline does so itself): such a mapping counts as the registered set',
    'a registration that is refused because the constant names a hash outside the set (dangling reference) is not judged',
    'malformed constant nodes (no argument, non-string argument, two arguments, annotated) are not covered by the statement: '
    'observed and counted as no verdict',
    'binary Micheline encoder: mc/ref/micheline.py',
]
LEVEL_TEXT = ('exhaustive over all reference DAGs on <=3 constants and all placements of <=2..3 references in 12 structural '
              'positions; expansion is structural, so positions outside the skeleton (deeper nesting) are not covered')

FILL = {'T': {'prim': 'unit'}, 'D': {'int': '0'}, 'C': {'prim': 'SWAP'}}
NAT = {'prim': 'nat'}


def cref(h):
    return {'prim': 'constant', 'args': [{'string': h}]}


# kind -> [(name, hole kinds, builder)]
BASIC = {
    'T': [('nat', '', lambda h: {'prim': 'nat'}),
          ('option', 'T', lambda h: {'prim': 'option', 'args': [h[0]]}),
          ('pair-list', 'TT', lambda h: {'prim': 'pair', 'args': [h[0], {'prim': 'list', 'args': [h[1]]}]})],
    'D': [('int', '', lambda h: {'int': '7'}),
          ('some', 'D', lambda h: {'prim': 'Some', 'args': [h[0]]}),
          ('seq', 'DD', lambda h: [h[0], {'int': '2'}, h[1]])],
    'C': [('drop', '', lambda h: {'prim': 'DROP'}),
          ('dip', 'C', lambda h: [{'prim': 'DIP', 'args': [[h[0]]]}]),
          ('push', 'TD', lambda h: {'prim': 'PUSH', 'args': [h[0], h[1]]}),
          ('if', 'CC', lambda h: {'prim': 'IF', 'args': [[h[0]], [h[1], {'prim': 'SWAP'}]]})],
}
EXTENDED = {
    'T': BASIC['T'] + [('annotated', '', lambda h: {'prim': 'pair', 'args': [{'prim': 'int'}, {'prim': 'string'}], 'annots': ['%x']}),
                       ('alias', 'T', lambda h: h[0]),
                       ('annotated-parent', 'T', lambda h: {'prim': 'or', 'args': [h[0], NAT], 'annots': [':t', '%f']})],
    'D': BASIC['D'] + [('pair', '', lambda h: {'prim': 'Pair', 'args': [{'int': '1'}, {'string': 's'}, {'bytes': '00ff'}]}),
                       ('alias', 'D', lambda h: h[0]),
                       ('elt', 'DD', lambda h: [{'prim': 'Elt', 'args': [h[0], h[1]]}])],
    'C': BASIC['C'] + [('seq', '', lambda h: [{'prim': 'DUP'}, {'prim': 'DROP'}]),
                       ('alias', 'C', lambda h: h[0]),
                       ('empty-seq', '', lambda h: []),
                       ('lambda', 'TC', lambda h: {'prim': 'LAMBDA', 'args': [h[0], {'prim': 'unit'}, [h[1]]]})],
}
INT_LITERALS = [0, 1, -1, 63, -63, 64, -64, 127, -127, 128, -128, 8191, -8191, 8192, -8192, 2**31, -2**31, 2**64, -2**64]
LITERALS = [{'int': ('-' if n < 0 else '') + format(abs(n), 'd')} for n in INT_LITERALS] + \
           [{'string': x} for x in ('', 'a', 'constant', 'x' * 300)] + [{'bytes': x} for x in ('', '00', 'ff' * 32, '0a' * 300)]
LIT = {
    'T': [],
    'D': [t for i in range(len(LITERALS)) for t in (
        (f'lit{i}', '', lambda h, i=i: LITERALS[i]),
        (f'some-lit{i}', '', lambda h, i=i: {'prim': 'Some', 'args': [LITERALS[i]]}),
        (f'seq-pair-lit{i}', '', lambda h, i=i: [{'prim': 'Pair', 'args': [{'int': '1'}, LITERALS[i]]}, LITERALS[i]]))],
    'C': [(f'push-int{i}', '', lambda h, i=i: {'prim': 'PUSH', 'args': [{'prim': 'int'}, LITERALS[i]]})
          for i in range(len(INT_LITERALS))],
}
TEMPLATES = {'basic': BASIC, 'ext': EXTENDED, 'lit': LIT}
MISSING = ref.expr_hash({'prim': 'chain_id'})     # named inside constants, never registered
UNKNOWN = ref.expr_hash({'prim': 'never'})        # named inside scripts, never registered

SLOT_KIND = 'TTCCTDDTCDTC' + 'CD'   # the last two sit in a sequence nested DIRECTLY inside a sequence ({ { . } } and a list of lists)
NSLOTS = len(SLOT_KIND)


def build_script(v):
    return [
        {'prim': 'parameter', 'args': [v[0]]},
        {'prim': 'storage', 'args': [{'prim': 'pair', 'args': [v[1], NAT], 'annots': [':st']}]},
        {'prim': 'code', 'args': [[
            v[2],
            {'prim': 'DIP', 'args': [[v[3], {'prim': 'DROP'}]]},
            {'prim': 'PUSH', 'args': [v[4], v[5]]},
            {'prim': 'PUSH', 'args': [{'prim': 'pair', 'args': [NAT, NAT]}, {'prim': 'Pair', 'args': [v[6], {'int': '1'}]}]},
            {'prim': 'LAMBDA', 'args': [v[7], {'prim': 'unit'}, [v[8]]]},
            {'prim': 'PUSH', 'args': [{'prim': 'list', 'args': [NAT]}, [{'int': '1'}, v[9]]]},
            [[v[12], {'prim': 'SWAP'}]],
            {'prim': 'PUSH', 'args': [{'prim': 'list', 'args': [{'prim': 'list', 'args': [NAT]}]}, [[{'int': '3'}, v[13]], []]]},
            {'prim': 'FAILWITH'},
        ]]},
        {'prim': 'view', 'args': [{'string': 'v'}, v[10], {'prim': 'unit'}, [{'prim': 'DROP'}, v[11], {'prim': 'UNIT'}]]},
    ]


# --- registered sets -------------------------------------------------------------------------------------------------
# constant spec = [kind, template index, [fill, ...]] ; fill = 'plain' | 'missing' | j (index of an earlier constant)
def constant_choices(prev_kinds, alpha, allow_missing=True):
    for kind in 'TDC':
        for ti, (_, holes, _) in enumerate(TEMPLATES[alpha][kind]):
            opts = []
            for hk in holes:
                o = ['plain'] + [j for j, k in enumerate(prev_kinds) if k == hk]
                if allow_missing:
                    o.append('missing')
                opts.append(o)
            for fills in itertools.product(*opts):
                yield [kind, ti, list(fills)]


def build_set(spec, alpha):
    """-> (bodies, reference hashes)."""
    bodies, hashes = [], []
    for kind, ti, fills in spec:
        _, holes, builder = TEMPLATES[alpha][kind][ti]
        h = []
        for hk, f in zip(holes, fills):
            if f == 'plain':
                h.append(FILL[hk])
            elif f == 'missing':
                h.append(cref(MISSING))
            else:
                h.append(cref(hashes[f]))
        body = builder(h)
        bodies.append(body)
        hashes.append(ref.expr_hash(body))
    return bodies, hashes


def connected(spec):
    """Every constant but the last is named by a later one and nothing dangles (the quick tier's 3-constant sets)."""
    used = set()
    for _, _, fills in spec:
        for f in fills:
            if f == 'missing':
                return False
            if isinstance(f, int):
                used.add(f)
    return used >= set(range(len(spec) - 1))


def sets_with_prefix(prefix, alpha, tier):
    """All registered sets that start with `prefix` (a list of 0..2 constant specs) in this tier."""
    yield prefix
    if alpha in ('ext', 'lit') or len(prefix) < 2:
        return
    kinds = [c[0] for c in prefix]
    for c2 in constant_choices(kinds, alpha, allow_missing=(tier == 'thorough')):
        s = prefix + [c2]
        if tier == 'thorough' or connected(s):
            yield s


# --- scripts -----------------------------------------------------------------------------------------------------------
# script spec = [[slot, choice], ...] ; choice = j (constant index) | 'unknown' | ['malformed', what]
def script_specs(kinds, max_slots):
    opts = []
    for sk in SLOT_KIND:
        opts.append([j for j, k in enumerate(kinds) if k == sk] + ['unknown'])
    for n in range(0, max_slots + 1):
        for slots in itertools.combinations(range(NSLOTS), n):
            for choice in itertools.product(*[opts[s] for s in slots]):
                # at most one unknown hash per script unless nothing is registered (keeps the classes balanced)
                if kinds and sum(1 for c in choice if c == 'unknown') > 1:
                    continue
                yield [[s, c] for s, c in zip(slots, choice)]


MALFORMED = ['badsum', 'empty', 'int-arg', 'no-args', 'empty-args', 'two-args', 'annotated']


def malformed_node(what, known_hash):
    if what == 'badsum':
        h = known_hash or UNKNOWN
        return cref(h[:-1] + ('1' if h[-1] != '1' else '2'))
    if what == 'empty':
        return cref('')
    if what == 'int-arg':
        return {'prim': 'constant', 'args': [{'int': '1'}]}
    if what == 'no-args':
        return {'prim': 'constant'}
    if what == 'empty-args':
        return {'prim': 'constant', 'args': []}
    if what == 'two-args':
        return {'prim': 'constant', 'args': [{'string': known_hash or UNKNOWN}, {'int': '1'}]}
    if what == 'annotated':
        return {'prim': 'constant', 'args': [{'string': known_hash or UNKNOWN}], 'annots': ['%a']}
    raise ValueError(what)


def make_script(sspec, hashes, kinds):
    v = [FILL[k] for k in SLOT_KIND]
    for slot, c in sspec:
        if c == 'unknown':
            v[slot] = cref(UNKNOWN)
        elif isinstance(c, int):
            v[slot] = cref(hashes[c])
        else:
            known = next((hashes[j] for j, k in enumerate(kinds) if k == SLOT_KIND[slot]), None)
            v[slot] = malformed_node(c[1], known)
    return build_script(v)


# --- one case ----------------------------------------------------------------------------------------------------------
D_REG = ('registering a constant fails although every hash it names belongs to the registered set '
         '(the order of registration must not matter for an acyclic reference graph)')
D_CTOR = 'ExecutionContext(global_constants=mapping) fails for a mapping from Tezos expression hashes to expressions'
D_WORLD = ('expansion depends on how the registry was filled (order of registration / mapping handed to the '
           'constructor): a registered constant is not expanded as the reference expands it')
NV_DANGLING = ('registration of a constant naming a hash that is not in the registered set is refused '
               '(Octez refuses it too; not judged)')


def register(ctx, body):
    """One observed call of the real register_global_constant: -> None | 'Type: message'."""
    try:
        ctx.register_global_constant(copy.deepcopy(body))
    except Exception as e:  # noqa
        return f'{type(e).__name__}: {e}'
    return None


def build_world(bodies, hashes, mode='register', order=None):
    """Builds a context holding the constants `order` (default: all, dependency first).  Every call into pytezos on the
    way is an observation, never a harness error: -> (context | None, failure | None); failure = (index of the constant
    whose registration raised | None for the constructor, 'Type: message')."""
    from pytezos.context.impl import ExecutionContext
    order = list(range(len(bodies))) if order is None else list(order)
    try:
        if mode == 'dict':
            return ExecutionContext(global_constants={hashes[i]: copy.deepcopy(bodies[i]) for i in order}), None
        ctx = ExecutionContext()
    except Exception as e:  # noqa
        return None, (None, f'{type(e).__name__}: {e}')
    for i in order:
        err = register(ctx, bodies[i])
        if err:
            return None, (i, err)
    return ctx, None


def judge_build_failure(failure, bodies, table, what):
    """A registration that raises violates C33 iff every hash the constant names (through other constants too) is in the
    set being registered (`table`); a constant with a dangling hash may be refused (no verdict).  -> result tuple."""
    i, err = failure
    if i is None:
        return (f'{what}: the constructor raises', D_CTOR, f'{what}: {err} registry={table}', False)
    try:
        ref.expand(bodies[i], table)
    except ref.UnknownConstant:
        return (f'{what}: {NV_DANGLING}', None, '', True)
    return (f'{what}: registration of a constant whose references are all in the set RAISES', D_REG,
            f'{what}: registering {bodies[i]} raised {err}; set being registered={list(table.values())}', False)


def classify(script, table, hashes):
    """-> (outcome class, expected expansion or None when it must raise)."""
    names = list(ref.references(script))
    try:
        want = ref.expand(script, table)
    except ref.UnknownConstant:
        direct_unknown = any(n not in table for n in names)
        return ('unknown hash in the script' if direct_unknown else 'unknown hash inside a referenced constant'), None
    dangling = any(r not in table for b in table.values() for r in ref.references(b))
    sfx = ' (a registered constant names an unknown hash but is not reachable)' if dangling else ''
    if not names:
        return 'no reference' + sfx, want
    nested = any(True for n in names for _ in ref.references(table[n]))
    return ('reference through another constant' if nested else 'direct reference') + sfx, want


def run_case(case, ctx=None):
    """-> list of (outcome label, descriptor or None, detail, no_verdict?)."""
    alpha = case.get('alpha', 'basic')
    bodies, hashes = build_set(case['set'], alpha)
    kinds = [c[0] for c in case['set']]
    table = dict(zip(hashes, bodies))
    entry = case.get('entry', 'resolve')
    if entry == 'history':
        return run_history(case, bodies, hashes, kinds, table)
    if entry == 'world':
        return run_world(case, bodies, hashes, kinds, table)
    if ctx is None or entry == 'build':
        ctx, failure = build_world(bodies, hashes)
        if failure:
            return [judge_build_failure(failure, bodies, table, 'dependency-first registration')]
    if entry == 'build':
        return [('dependency-first registration: every constant accepted', None, '', False)]
    out = []

    if entry == 'keys':
        got = sorted(ctx.global_constants)
        if got != sorted(set(hashes)):
            return [('registered keys differ', 'constant registered under a hash that is not its Tezos expression hash',
                     f'bodies={bodies} keys={got} expected={sorted(set(hashes))}', False)]
        if any(ctx.global_constants[h] != table[h] for h in table):
            return [('registered value differs', 'registered expression stored modified', f'{ctx.global_constants}', False)]
        return [(f'{len(set(hashes))} distinct constants registered under their hashes', None, '', False)]

    if entry == 'root':
        j = case['const']
        node = cref(hashes[j])
        try:
            want = ref.expand(node, table)
        except ref.UnknownConstant:
            want = None
        try:
            got = ('ok', ctx.resolve_global_constants(node))
        except Exception as e:  # noqa
            got = ('raise', f'{type(e).__name__}: {e}')
        if want is None:
            ok = got[0] == 'raise'
            return [('root reference to a constant with a dangling hash: ' + ('raises' if ok else 'EXPANDED'),
                     None if ok else 'unknown hash expanded without error', f'body={bodies[j]} got={got}', False)]
        ok = got == ('ok', want)
        return [('root reference: ' + ('expanded' if ok else 'WRONG'),
                 None if ok else 'wrong expansion: constant node at the root', f'body={bodies[j]} got={got} expected={want}',
                 False)]

    if entry == 'tezos-hash':
        # Octez would key constant j by the hash of its expanded body; does pytezos know that hash?  (not judged)
        j = case['const']
        try:
            h = ref.expr_hash(ref.expand(bodies[j], table))
        except ref.UnknownConstant:
            return [('nested constant with a dangling hash: Octez would refuse to register it (not judged)', None, '', True)]
        try:
            ctx.resolve_global_constants(cref(h))
            res = 'known'
        except Exception:  # noqa
            res = 'unknown'
        return [(f'nested constant named by the hash of its expanded form (Octez keying): {res} to pytezos (not judged)',
                 None, '', True)]

    script = make_script(case['script'], hashes, kinds)
    malformed = [c[1] for _, c in case['script'] if isinstance(c, list)]
    judged_malformed = [m for m in malformed if m in ('badsum', 'empty')]      # plain unknown strings
    pristine = copy.deepcopy(script)
    reg_before = copy.deepcopy(ctx.global_constants)

    if entry == 'interface':
        from pytezos.contract.interface import ContractInterface
        cls, want = classify(script, table, hashes)
        try:
            ci = ContractInterface.from_micheline(script, ctx)
            got = ('ok', ci.context.script['code'], ci.context.get_code_expr(), ci.context.get_views_expr())
        except Exception as e:  # noqa
            got = ('raise', f'{type(e).__name__}: {e.args[-1] if e.args else ""}')
        if want is None:
            ok = got[0] == 'raise'
            out.append((f'interface: {cls}: ' + ('raises' if ok else 'ACCEPTED'),
                        None if ok else 'ContractInterface.from_micheline accepts a script naming an unknown hash',
                        f'script={case["script"]} got={got}', False))
        else:
            exp = ('ok', want, want[2], [want[3]])
            ok = got == exp
            d = None
            if not ok:
                d = ('ContractInterface.from_micheline rejects a script whose constants are all registered'
                     if got[0] == 'raise' else 'ContractInterface.from_micheline: script sections differ from the expansion')
            out.append((f'interface: {cls}: ' + ('expanded' if ok else 'WRONG'), d,
                        f'script={case["script"]} got={got} expected={exp}', False))
    else:
        try:
            got = ('ok', ctx.resolve_global_constants(script))
        except Exception as e:  # noqa
            got = ('raise', f'{type(e).__name__}: {e}')
        if malformed and len(judged_malformed) < len(malformed):
            out.append((f'malformed constant node ({"+".join(malformed)}): '
                        + ('raises' if got[0] == 'raise' else 'expanded or kept') + ' (not judged)', None, '', True))
        else:
            cls, want = classify(script, table, hashes)
            if want is None:
                ok = got[0] == 'raise'
                out.append((f'{cls}: ' + ('raises' if ok else 'EXPANDED'),
                            None if ok else 'unknown hash expanded without error',
                            f'script={case["script"]} got={got}', False))
            elif got[0] == 'raise':
                out.append((f'{cls}: RAISES', 'expansion fails although every named hash is registered',
                            f'script={case["script"]} set={bodies} error={got[1]}', False))
            else:
                ok = got[1] == want
                d = None
                if not ok:
                    d = {'no reference': 'script without references changed',
                         'direct reference': 'wrong expansion: direct reference',
                         'reference through another constant': 'wrong expansion: reference through another constant',
                         }[cls.split(' (')[0]]
                out.append((f'{cls}: ' + ('expanded' if ok else 'WRONG'), d,
                            f'script={case["script"]} set={bodies} got={got[1]} expected={want}', False))
    if script != pristine:
        out.append(('input modified', 'expansion modifies the script it is given', f'script={case["script"]}', False))
    if ctx.global_constants != reg_before or ctx.global_constants != table:
        out.append(('registered constants modified', 'expansion modifies a registered constant',
                    f'before={reg_before} after={ctx.global_constants}', False))
    return out


def run_world(case, bodies, hashes, kinds, table):
    """The same set of expressions put into a context in every way and order: by `register_global_constant` in the order
    `perm` (every root reference judged after EVERY registration against the table registered so far: what is still unknown
    must raise, what is complete must expand), or as a ready-made mapping hash -> expression handed to the constructor with
    its items in the order `perm` (the way ContractInterface.from_micheline hands the registry on).  In the finished world:
    registered keys, every constant at the root and in its first fitting slot of the skeleton, and (case['iface']) the
    ContractInterface leg for the script naming the last constant."""
    from pytezos.context.impl import ExecutionContext
    perm, mode = case['perm'], case['mode']
    what = 'world by registration' if mode == 'register' else 'world from a mapping'
    out = []

    def judge(ctx, node, tbl, when, where):
        try:
            want = ref.expand(node, tbl)
        except ref.UnknownConstant:
            want = None
        pristine = copy.deepcopy(node)
        try:
            got = ('ok', ctx.resolve_global_constants(node))
        except Exception as e:  # noqa
            got = ('raise', f'{type(e).__name__}: {e}')
        detail = f'{what} order={perm} {when}: {where} set={bodies} got={got} expected={want if want is not None else "an error"}'
        if want is None:
            ok = got[0] == 'raise'
            why = 'constant not (completely) registered yet' if when == 'partial registry' else 'constant naming a hash outside the set'
            out.append((f'{what}: {when}: {why}: ' + ('raises' if ok else 'EXPANDED'),
                        None if ok else 'unknown hash expanded without error', detail, False))
        else:
            ok = got == ('ok', want)
            out.append((f'{what}: {when}: registered constant: ' + ('expanded' if ok else 'WRONG'), None if ok else D_WORLD,
                        detail, False))
        if node != pristine:
            out.append(('input modified', 'expansion modifies the script it is given', detail, False))

    if mode == 'register':
        try:
            ctx = ExecutionContext()
        except Exception as e:  # noqa
            return [judge_build_failure((None, f'{type(e).__name__}: {e}'), bodies, table, what)]
        tbl = {}
        for k, i in enumerate(perm):
            err = register(ctx, bodies[i])
            if err:
                out.append(judge_build_failure((i, err), bodies, table, what))
                return out
            tbl[hashes[i]] = bodies[i]
            if k + 1 < len(perm):
                for j in range(len(bodies)):
                    judge(ctx, cref(hashes[j]), tbl, 'partial registry', f'root reference to constant {j} after {k + 1} registrations')
    else:
        ctx, failure = build_world(bodies, hashes, 'dict', perm)
        if failure:
            return [judge_build_failure(failure, bodies, table, what)]
    try:
        keys = sorted(ctx.global_constants)
    except Exception as e:  # noqa
        keys = f'{type(e).__name__}: {e}'
    if keys != sorted(set(hashes)):
        out.append((f'{what}: registered keys differ', 'constant registered under a hash that is not its Tezos expression hash',
                    f'{what} order={perm} bodies={bodies} keys={keys} expected={sorted(set(hashes))}', False))
    for j in range(len(bodies)):
        judge(ctx, cref(hashes[j]), table, 'complete registry', f'root reference to constant {j}')
        slot = SLOT_KIND.index(kinds[j])
        judge(ctx, make_script([[slot, j]], hashes, kinds), table, 'complete registry', f'constant {j} in slot {slot}')
    if case.get('iface') and bodies:
        from pytezos.contract.interface import ContractInterface
        j = len(bodies) - 1
        script = make_script([[SLOT_KIND.index(kinds[j]), j]], hashes, kinds)
        try:
            want = ref.expand(script, table)
        except ref.UnknownConstant:
            want = None
        try:
            ci = ContractInterface.from_micheline(script, ctx)
            got = ('ok', ci.context.script['code'], ci.context.get_code_expr(), ci.context.get_views_expr())
        except Exception as e:  # noqa
            got = ('raise', f'{type(e).__name__}: {e.args[-1] if e.args else ""}')
        detail = f'{what} order={perm} set={bodies} script names constant {j} got={got}'
        if want is None:
            ok = got[0] == 'raise'
            out.append((f'{what}: interface: unknown hash inside a referenced constant: ' + ('raises' if ok else 'ACCEPTED'),
                        None if ok else 'ContractInterface.from_micheline accepts a script naming an unknown hash', detail, False))
        else:
            ok = got == ('ok', want, want[2], [want[3]])
            d = None
            if not ok:
                d = ('ContractInterface.from_micheline rejects a script whose constants are all registered'
                     if got[0] == 'raise' else 'ContractInterface.from_micheline: script sections differ from the expansion')
            out.append((f'{what}: interface: ' + ('expanded' if ok else 'WRONG'), d, detail + f' expected={want}', False))
    return out


def run_history(case, bodies, hashes, kinds, table):
    """Several calls on two contexts (A: whole set, B: the set without constant j) or on A around reset(); every call is
    judged against the reference with the table of the context it is made on."""
    j, slot, order = case['const'], case['slot'], case['order']
    node = cref(hashes[j]) if slot == 'root' else make_script([[slot, j]], hashes, kinds)
    bodies_b = [b for b, h in zip(bodies, hashes) if h != hashes[j]]
    table_b = {h: b for h, b in table.items() if h != hashes[j]}
    a, failure = build_world(bodies, hashes)
    if failure:
        return [judge_build_failure(failure, bodies, table, 'history: context A')]
    if order == 'reset':
        steps = [('A', a, table, None), ('A after reset()', a, {}, 'reset'), ('A after registering again', a, table, 'register')]
    else:
        b, failure = build_world(bodies_b, [ref.expr_hash(x) for x in bodies_b])
        if failure:     # B lacks constant j: a constant naming j dangles there and may be refused
            return [judge_build_failure(failure, bodies_b, table_b, 'history: context B (the set without one constant)')]
        ctxs = {'A': ('A (knows the constant)', a, table), 'B': ('B (does not know it)', b, table_b)}
        steps = [ctxs[c] + (None,) for c in order]
    out = []
    for i, (who, ctx, tbl, before) in enumerate(steps):
        if before == 'reset':
            try:
                ctx.reset()
            except Exception as e:  # noqa
                out.append((f'history: reset() raises {type(e).__name__} (not judged)', None, '', True))
                return out
        elif before == 'register':
            for bi, body in enumerate(bodies):
                err = register(ctx, body)
                if err:
                    out.append(judge_build_failure((bi, err), bodies, table, 'history: registering again after reset()'))
                    return out
        try:
            want = ref.expand(node, tbl)
        except ref.UnknownConstant:
            want = None
        pristine = copy.deepcopy(node)
        try:
            got = ('ok', ctx.resolve_global_constants(node))
        except Exception as e:  # noqa
            got = ('raise', f'{type(e).__name__}: {e}')
        detail = f'order={order} call {i + 1} on context {who} node={"root" if slot == "root" else "slot %d" % slot} body={bodies[j]} got={got}'
        if want is None:
            ok = got[0] == 'raise'
            d = None if ok else ('unknown hash expanded without error' if i == 0 else
                                 'hash unknown to the context asked is expanded after an earlier call (other context / before reset) expanded it')
            out.append((f'history {order} call {i + 1}: unknown to {who.split(" (")[0]}: ' + ('raises' if ok else 'EXPANDED'), d, detail, False))
        else:
            ok = got == ('ok', want)
            d = None if ok else ('wrong expansion: constant node at the root' if i == 0 and slot == 'root' else
                                 'wrong expansion: direct reference' if i == 0 else
                                 'expansion of a registered constant fails or differs after an earlier call (other context / before reset)')
            out.append((f'history {order} call {i + 1}: known to {who.split(" (")[0]}: ' + ('expanded' if ok else 'WRONG'), d,
                        detail + f' expected={want}', False))
        if node != pristine:
            out.append(('input modified', 'expansion modifies the script it is given', detail, False))
        if ctx.global_constants != tbl:
            out.append(('registered constants modified', 'expansion modifies a registered constant',
                        f'{detail} registry={ctx.global_constants}', False))
    return out


# --- shards ------------------------------------------------------------------------------------------------------------
def shards(tier, seed):
    out = [('basic', [])]
    for c0 in constant_choices([], 'basic'):
        out.append(('basic', [c0]))
        for c1 in constant_choices([c0[0]], 'basic'):
            out.append(('basic', [c0, c1]))
    for c0 in constant_choices([], 'lit', allow_missing=False):
        out.append(('lit', [c0]))
    if tier == 'thorough':
        out.append(('ext', []))
        for c0 in constant_choices([], 'ext'):
            out.append(('ext', [c0]))
            out.append(('ext2', [c0]))
    return out


def cases_of(spec, tier):
    alpha, prefix = spec
    if alpha == 'ext2':     # all two-constant extended sets starting with prefix[0]
        sets = ([prefix[0], c1] for c1 in constant_choices([prefix[0][0]], 'ext'))
        alpha = 'ext'
    else:
        sets = sets_with_prefix(prefix, alpha, tier)
    for s in sets:
        kinds = [c[0] for c in s]
        base = {'alpha': alpha, 'set': s}
        yield dict(base, entry='build')
        nested = any(isinstance(f, int) for c in s for f in c[2])
        for perm in itertools.permutations(range(len(s))):
            for mode in ('register', 'dict'):
                yield dict(base, entry='world', mode=mode, perm=list(perm), iface=(alpha == 'basic' and (len(s) <= 2 or nested)))
        yield dict(base, entry='keys')
        for j, c in enumerate(s):
            yield dict(base, entry='root', const=j)
            if any(isinstance(f, int) or f == 'missing' for f in c[2]):
                yield dict(base, entry='tezos-hash', const=j)
            slots = ['root'] + [i for i, k in enumerate(SLOT_KIND) if k == c[0]]
            for si, slot in enumerate(slots):
                for order in (('ABA', 'BAB', 'reset') if si < 2 else ('ABA',)):
                    yield dict(base, entry='history', const=j, slot=slot, order=order)
        max_slots = 3 if (tier == 'thorough' and alpha == 'ext') else 2
        if alpha == 'lit':
            max_slots = 2 if tier == 'thorough' else 1
        iface_slots = -1
        if alpha == 'basic' and len(s) <= 2:
            iface_slots = 2 if (tier == 'thorough' or len(s) <= 1) else 1
        for ss in script_specs(kinds, max_slots):
            yield dict(base, script=ss)
            if len(ss) <= iface_slots:
                yield dict(base, script=ss, entry='interface')
        if len(s) <= 1 and alpha != 'lit':
            for slot in range(NSLOTS):
                for m in MALFORMED:
                    yield dict(base, script=[[slot, ['malformed', m]]])


def run_shard(spec, tier):
    r = Result()
    case = None
    cur_set, ctx = None, None
    for case in cases_of(spec, tier):
        if case['set'] is not cur_set:
            cur_set = case['set']
            bodies, hashes = build_set(cur_set, case['alpha'])
            ctx, _ = build_world(bodies, hashes)        # a failure is judged by the set's 'build' case
        r.ev()
        if case.get('script') or case.get('entry') in ('root', 'tezos-hash', 'history') or (case.get('entry') == 'world' and cur_set):
            r.nt((case['alpha'], case['set'], case.get('script'), case.get('entry'), case.get('const'), case.get('slot'),
                  case.get('order'), case.get('mode'), case.get('perm')))
        if ctx is None and case.get('entry') not in ('build', 'world', 'history'):
            r.out('not run: the set could not be registered dependency first (judged by its build case)')
            r.no_verdict += 1
            continue
        for label, desc, detail, nov in run_case(case, ctx):
            r.out(label)
            if nov:
                r.no_verdict += 1
            if desc:
                r.viol(desc, case, detail)
        if len(r.samples) < 1 and case.get('script') and len(case['script']) == 2:
            r.sample(case)
    if case is not None:
        r.sample(case)
    return r


def replay(case):
    return [(d, f'{label}: {detail}') for label, d, detail, _ in run_case(case) if d]


def observe(case):
    return [label for label, _, _, _ in run_case(case)]
