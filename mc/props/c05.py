"""C05 — Micheline binary encoding round-trips and decodes strictly.

Small-scope exhaustive enumeration of the real `forge_micheline` / `unforge_micheline` / `forge_int` /
`unforge_int` / `forge_nat` (pytezos/michelson/forge.py) against the plain-Python reference `mc/ref/micheline.py`.

Universe (every member is enumerated, nothing is sampled):
  S   all Micheline trees with <= N nodes over the "structure" alphabet: leaves {0, -64, "a", 0x00}; primitive
      heads {Pair (tag 07), IS_IMPLICIT_ACCOUNT (last tag, 9e)} x annots {none, [%a], [%a,:b]} with 0..4 args;
      sequences of 0..3 elements.
  S0  all trees with <= N0 nodes over the tiny alphabet {0; Pair, Pair %a with 0..4 args; sequences of 0..3}
      (deeper nesting than S can afford).
  L   every leaf of the full value alphabet (ints 0, +-1, +-63, +-64, +-8191, +-8192, +-2^62, +-2^4096 and the
      spellings "-0", "007", "+1"; strings "", "a", "e-acute", 300 x "x"; bytes "", 00, 300 x ff; the 7 primitives
      spanning the tag-table edges x 3 annotation lists) placed in every one-hole context made of S-trees.
  P   every one of the 159 protocol primitives x arity 0..4 x 3 annotation lists.
  I   every integer of a contiguous range around 0 plus +-(2^(6+7k) + {-1,0,1}) for every k up to 4200 bits.
Per expression e:  (1) forge_micheline(e) == reference encoding (also with explicit empty args/annots lists);
  (2) unforge_micheline(forge_micheline(e)) == normalize(e);  (3) injectivity: one dict bytes -> expression over the
  whole universe (dedicated shards, partitioned by crc32 of the encoding so that equal encodings meet);
  (4) strictness: every truncation, every one-byte extension and every one-byte substitution over
  {00,01,7f,80,ff,b-1,b+1}, and every integer re-encoded with one / two extra zero groups.  One direction only:
  the reference strict decoder rejects for a reason the statement lists  => the implementation must raise (any
  exception counts); the reference accepts => the implementation raises or returns the reference's expression
  (and must return it if the mutant is itself the canonical encoding of that expression: that is round trip).
  Mutants the reference rejects only because of "sign bit on zero" or "not UTF-8" get NO verdict (Octez's
  data-encoding layer is not known to reject them; the statement does not list them).
Plus two complete single-byte sweeps: all 256 node tags in front of every tail of a small encoding, and all 256
primitive tags in every head form.
"""
from __future__ import annotations

import itertools
import json
import zlib
from functools import lru_cache

from mc.engine.report import Result
from mc.ref import micheline as R

ID = 'C05'
LEVEL = 'exploration'
RULE = ('every tree of the universes S, S0, L-in-context, P and every integer of I is one evaluation of '
        '(forge == reference, round trip); every mutant byte string (truncation / extension / substitution / '
        'non-minimal integer / tag sweep) is one evaluation judged by the reference strict decoder.  '
        'distinct_nontrivial = distinct expressions (by reference encoding) that have more than one node or a '
        'multi-byte integer / length-prefixed payload, plus distinct integers of I needing more than one byte; mutants '
        'are not counted there but in extra.mutants_* and in the outcome classes (mutation kind | reference verdict | '
        'implementation outcome)')
BOUND = {
    'quick': 'S: all trees <=5 nodes (mutants for <=4); S0: <=6 nodes (mutants for <=4); L in contexts of <=2 nodes '
             '(big leaves: <=1); P: 159 prims x 5 arities x 3 annots; I: all ints |n|<=16700 + boundaries to 4200 bits; '
             'tag sweeps 256 x all tails of trees <=2 nodes; injectivity dict over S<=4, S0<=6, L, P (for S=5 '
             'injectivity follows from the round trip, which is checked on every tree)',
    'thorough': 'S: all trees <=5 nodes with all mutants; S0: <=7 nodes (mutants for <=6); L in contexts of <=3 nodes '
                '(big leaves: <=2); P as quick; I: all ints |n|<=2^20+300 + boundaries to 4200 bits; tag sweeps 256 x '
                'all tails of trees <=3 nodes; injectivity dict over S<=5, S0<=7, L, P',
}
ASSUMPTIONS = [
    'mc/ref/micheline.py is the Tezos binary Micheline format (selftest: Octez pack vectors, 20 mainnet scripts)',
    'Octez rejects a multi-byte integer whose last group is 00 (data-encoding Trailing_zero); whether it rejects a '
    'single byte 0x40 (zero with the sign bit) or non-UTF-8 string bytes is NOT assumed: no verdict',
    'any exception raised by unforge_micheline counts as rejection (AssertionError, IndexError, KeyError, ...): the '
    'check runs without python -O, under which the assert-based length checks of unforge_array would disappear',
    'annotations are well-formed tokens without spaces',
    'the deprecated primitives CREATE_ACCOUNT / STEPS_TO_QUOTA are spelled __CREATE_ACCOUNT__ / __STEPS_TO_QUOTA__ by '
    'pytezos on purpose (tags.py); the check feeds and accepts that spelling and does not judge the renaming',
]
LEVEL_TEXT = ('exhaustive over the stated finite universes (no sampling): equality with an independent encoder, round '
              'trip and injectivity are decided for every tree up to the bound; strictness is decided for every '
              'single-byte mutant of every such encoding.  Larger trees / multi-byte corruptions are not covered.')

SOFT = ('negzero', 'utf8')
SUBST = (0x00, 0x01, 0x7F, 0x80, 0xFF)
REJECT_DESCRIPTOR = {
    'nonminimal': 'unforge accepts a non-minimal integer (trailing zero group)',
    'unknown-prim': 'unforge accepts an unknown primitive tag',
    'unknown-tag': 'unforge accepts an unknown node tag',
    'truncated': 'unforge accepts truncated input / a length prefix longer than the data',
    'overrun': 'unforge accepts an element overrunning its sequence length prefix',
    'trailing': 'unforge accepts trailing bytes',
}

# ----------------------------------------------------------------------------------------------- alphabets
ANN = ((), ('%a',), ('%a', ':b'))
ALPH = {
    'S': {'leaves': [{'int': '0'}, {'int': '-64'}, {'string': 'a'}, {'bytes': '00'}],
          'heads': [('seq',)] + [('prim', p, a) for p in ('Pair', 'IS_IMPLICIT_ACCOUNT') for a in ANN]},
    'S0': {'leaves': [{'int': '0'}],
           'heads': [('seq',), ('prim', 'Pair', ()), ('prim', 'Pair', ('%a',))]},
}
HOLE = {'string': '\x00HOLE'}
ALPH['SH'] = {'leaves': ALPH['S']['leaves'] + [HOLE], 'heads': ALPH['S']['heads']}
EDGE_PRIMS = ('parameter', 'Elt', 'Pair', 'PUSH', 'pair', 'constant', 'IS_IMPLICIT_ACCOUNT')
BIG = 300


def full_leaves():
    ints = [0]
    for v in (1, 63, 64, 8191, 8192, 2 ** 62, 2 ** 4096):
        ints += [v, -v]
    out = [{'int': R.dec_of(v)} for v in ints] + [{'int': '-0'}, {'int': '007'}, {'int': '+1'}]
    out += [{'string': ''}, {'string': 'a'}, {'string': 'é'}, {'string': 'x' * BIG}]
    out += [{'bytes': ''}, {'bytes': '00'}, {'bytes': 'ff' * BIG}]
    for p in EDGE_PRIMS:
        for a in ANN:
            out.append({'prim': p, 'annots': list(a)} if a else {'prim': p})
    return out


def is_big_leaf(leaf):
    return len(R.encode(leaf)) > 64


def mk(head, children):
    if head[0] == 'seq':
        return list(children)
    e = {'prim': head[1]}
    if children:
        e['args'] = list(children)
    if head[2]:
        e['annots'] = list(head[2])
    return e


def max_arity(head):
    return 3 if head[0] == 'seq' else 4


@lru_cache(maxsize=None)
def compositions(m, k):
    if k == 0:
        return ((),) if m == 0 else ()
    if k == 1:
        return ((m,),) if m >= 1 else ()
    return tuple((a,) + rest for a in range(1, m - k + 2) for rest in compositions(m - a, k - 1))


@lru_cache(maxsize=None)
def trees(alph, n):
    """Materialised tuple of all trees with exactly n nodes (children are shared, never mutated)."""
    return tuple(gen(alph, n))


def gen(alph, n, head_idx=None):
    """Lazy enumeration of all trees with exactly n nodes; head_idx restricts the root (-1 = plain leaves)."""
    A = ALPH[alph]
    if n == 1 and head_idx in (None, -1):
        yield from A['leaves']
    for hi, head in enumerate(A['heads']):
        if head_idx is not None and hi != head_idx:
            continue
        if n == 1:
            yield mk(head, ())
            continue
        for k in range(1, min(max_arity(head), n - 1) + 1):
            for comp in compositions(n - 1, k):
                rest = [trees(alph, s) for s in comp[1:]]
                first = gen(alph, comp[0]) if comp[0] > 4 else trees(alph, comp[0])
                for c1 in first:
                    for cs in itertools.product(*rest):
                        yield mk(head, (c1,) + cs)


@lru_cache(maxsize=None)
def count(alph, n, head_idx=None):
    A = ALPH[alph]
    tot = 0
    if n == 1:
        if head_idx in (None, -1):
            tot += len(A['leaves'])
        for hi, _ in enumerate(A['heads']):
            if head_idx is None or hi == head_idx:
                tot += 1
        return tot
    for hi, head in enumerate(A['heads']):
        if head_idx is not None and hi != head_idx:
            continue
        for k in range(1, min(max_arity(head), n - 1) + 1):
            for comp in compositions(n - 1, k):
                p = 1
                for s in comp:
                    p *= count(alph, s)
                tot += p
    return tot


def holes(e):
    if e is HOLE:
        return 1
    if isinstance(e, list):
        return sum(holes(x) for x in e)
    return sum(holes(x) for x in e.get('args', ())) if 'prim' in e else 0


def fill(e, leaf):
    if e is HOLE:
        return leaf
    if isinstance(e, list):
        return [fill(x, leaf) for x in e]
    if 'prim' in e and 'args' in e:
        out = dict(e)
        out['args'] = [fill(x, leaf) for x in e['args']]
        return out
    return e


@lru_cache(maxsize=None)
def contexts(max_nodes):
    """All S-trees with <= max_nodes nodes and exactly one hole (the hole counts as a node)."""
    return tuple(t for n in range(1, max_nodes + 1) for t in gen('SH', n) if holes(t) == 1)


def with_empties(e):
    """The same expression spelled with explicit empty args / annots lists."""
    if isinstance(e, list):
        return [with_empties(x) for x in e]
    if 'prim' in e:
        return {'prim': e['prim'], 'args': [with_empties(x) for x in e.get('args', [])], 'annots': list(e.get('annots', []))}
    return e


def impl_name(p):
    """The two deprecated primitives are deliberately renamed by pytezos (`__CREATE_ACCOUNT__`); that renaming is not
    judged: the implementation's spelling is used as input and resolved again by R.normalize on output."""
    from pytezos.michelson.tags import prim_tags
    if p not in prim_tags:
        for alias, proto in R.ALIASES.items():
            if proto == p and alias in prim_tags:
                return alias
    return p


def prim_forms():
    for p in map(impl_name, R.PRIMS):
        for k in range(5):
            for a in ANN:
                yield mk(('prim', p, a), tuple({'int': str(i)} for i in range(k)))


# ----------------------------------------------------------------------------------------------- tiers
def params(tier):
    q = tier == 'quick'
    return {
        'S': (5, 4) if q else (5, 5),          # (max nodes, max nodes with mutants)
        'S0': (6, 4) if q else (7, 6),
        'ctx': (2, 1) if q else (3, 2),        # context size for small leaves, for big leaves
        'int_range': 16700 if q else 2 ** 20 + 300,
        'tails': 2 if q else 3,
        'inj': {'S': 4, 'S0': 6, 'parts': 2} if q else {'S': 5, 'S0': 7, 'parts': 4},   # universe of the injectivity dict
    }


def universe(tier):
    """Every expression of S, S0 (up to the injectivity bound of the tier), L-in-context and P."""
    P = params(tier)
    for alph in ('S', 'S0'):
        for n in range(1, P['inj'][alph] + 1):
            yield from gen(alph, n)
    leaves = full_leaves()
    for leaf in leaves:
        for c in contexts(P['ctx'][1] if is_big_leaf(leaf) else P['ctx'][0]):
            yield fill(c, leaf)
    yield from prim_forms()


def shards(tier, seed):
    P = params(tier)
    out = []
    for alph in ('S', 'S0'):
        nmax, mmax = P[alph]
        for n in range(1, nmax + 1):
            mut = n <= mmax
            target = 2500 if mut else 60000
            for hi in [-1] + list(range(len(ALPH[alph]['heads']))):
                c = count(alph, n, hi)
                if not c:
                    continue
                parts = max(1, -(-c // target))
                out += [('tree', alph, n, hi, part, parts, mut) for part in range(parts)]
    for li, leaf in enumerate(full_leaves()):
        big = is_big_leaf(leaf)
        nctx = len(contexts(P['ctx'][1] if big else P['ctx'][0]))
        parts = max(1, -(-nctx // (6 if big else 400)))
        out += [('leaf', li, part, parts) for part in range(parts)]
    out += [('prims', part, 8) for part in range(8)]
    out += [('tagsweep', part, 16) for part in range(16)]
    R_ = P['int_range']
    step = max(2000, (2 * R_ + 1) // 48 + 1)
    out += [('ints', lo, min(lo + step, R_ + 1)) for lo in range(-R_, R_ + 1, step)]
    out += [('intedges', part, 8) for part in range(8)]
    out += [('inj', part, P['inj']['parts']) for part in range(P['inj']['parts'])]
    # heaviest first so that the pool drains evenly
    weight = {'inj': 0, 'leaf': 1, 'tree': 2, 'ints': 3, 'intedges': 3, 'prims': 4, 'tagsweep': 4}
    out.sort(key=lambda s: weight[s[0]])
    return out


# ----------------------------------------------------------------------------------------------- judging
def dumps(e):
    return json.dumps(e, sort_keys=True)


def impl_decode(m):
    from pytezos.michelson.forge import unforge_micheline
    try:
        return 'ret', unforge_micheline(m)
    except Exception as ex:  # any exception is a rejection
        return 'raise', type(ex).__name__


def ref_verdict(m):
    """('ok', expr) | ('rej', kind) hard rejection | ('soft', kind) rejected only by a rule Tezos is not known to have."""
    try:
        return 'ok', R.decode(m)
    except R.DecodeError as e:
        k = e.kind
    if k in SOFT:
        try:
            R.decode(m, lenient=True)
            return 'soft', k
        except R.DecodeError as e2:
            return 'rej', e2.kind
    return 'rej', k


def judge_bytes(m, how):
    """Strictness judgement of one byte string.  Returns (outcome label, [(descriptor, detail)])."""
    rk, rv = ref_verdict(m)
    ik, iv = impl_decode(m)
    il = 'raises' if ik == 'raise' else 'returns'
    if rk == 'soft':
        return f'{how}|ref no-verdict {rv}|impl {il}', None
    if rk == 'rej':
        if ik == 'ret':
            return (f'{how}|ref rejects {rv}|impl RETURNS',
                    [(REJECT_DESCRIPTOR[rv], f'{m.hex()} ({how}): reference rejects ({rv}); unforge_micheline returned {iv!r:.300}')])
        return f'{how}|ref rejects {rv}|impl raises', []
    canonical = R.encode(rv) == m
    lab = f'{how}|ref accepts {"canonical" if canonical else "non-canonical"}|impl {il}'
    if ik == 'raise':
        if canonical:
            return lab, [('unforge raises on the canonical encoding of an expression',
                          f'{m.hex()} = encoding of {dumps(rv):.300}; unforge_micheline raised {iv}')]
        return lab, []
    try:
        same = R.normalize(iv) == R.normalize(rv)
    except Exception:
        same = False
    if not same:
        return lab + ' WRONG', [('unforge returns a different expression than the reference decoder',
                                 f'{m.hex()} ({how}): reference {dumps(rv):.300}, unforge_micheline {iv!r:.300}')]
    return lab, []


def check_expr(e):
    """(1) forge == reference, (2) round trip.  Returns (reference bytes, [(descriptor, detail)])."""
    from pytezos.michelson.forge import forge_micheline, unforge_micheline
    exp = R.encode(e)
    out = []
    try:
        got = forge_micheline(e)
    except Exception as ex:
        return exp, [('forge_micheline raises on a valid expression', f'{dumps(e):.300}: {type(ex).__name__}: {ex}')]
    if got != exp:
        out.append(('forge_micheline differs from the reference encoding',
                    f'{dumps(e):.300}: forge={got.hex():.200} reference={exp.hex():.200}'))
    try:
        got2 = forge_micheline(with_empties(e))
        if got2 != exp:
            out.append(('forge_micheline encodes explicit empty args/annots lists differently',
                        f'{dumps(e):.300}: forge={got2.hex():.200} reference={exp.hex():.200}'))
    except Exception as ex:
        out.append(('forge_micheline raises on explicit empty args/annots lists', f'{dumps(e):.300}: {type(ex).__name__}: {ex}'))
    try:
        back = unforge_micheline(got)
    except Exception as ex:
        out.append(('unforge raises on the output of forge_micheline', f'{dumps(e):.300}: {got.hex():.200}: {type(ex).__name__}: {ex}'))
        return exp, out
    try:
        same = R.normalize(back) == R.normalize(e)
    except Exception:
        same = False
    if not same:
        out.append(('round trip returns a different expression', f'{dumps(e):.300} -> {got.hex():.200} -> {back!r:.300}'))
    else:
        # the decoded tree belongs to the caller: editing it must not change what the same bytes decode to next time
        try:
            if isinstance(back, list):
                back.append({'int': '424242'})
            elif isinstance(back, dict):
                back['prim' if 'prim' in back else next(iter(back))] = 'EDITED_BY_CALLER'
                back.setdefault('args', []).append({'int': '424242'})
            again = unforge_micheline(got)
            if R.normalize(again) != R.normalize(e):
                out.append(('decoding the same bytes again returns a tree that reflects the caller\'s edits to the first result',
                            f'{dumps(e):.300}: second decode {again!r:.300}'))
        except Exception as ex:
            out.append(('second decode of the same bytes raises', f'{dumps(e):.300}: {type(ex).__name__}: {ex}'))
    return exp, out


def mutants(b):
    """(how, bytes) for every truncation, extension and single-byte substitution of b."""
    for i in range(len(b)):
        yield 'trunc', b[:i]
    for x in SUBST:
        yield 'ext', b + bytes([x])
    for i, old in enumerate(b):
        seen = {old}
        for x in SUBST + ((old - 1) & 0xFF, (old + 1) & 0xFF):
            if x not in seen:
                seen.add(x)
                yield 'subst', b[:i] + bytes([x]) + b[i + 1:]


def pad_zint(v, groups):
    """enc_zint(v) followed by `groups` extra zero groups (non-minimal spelling of the same number)."""
    b = bytearray(R.enc_zint(v))
    for _ in range(groups):
        b[-1] |= 0x80
        b.append(0)
    return bytes(b)


def count_ints(e):
    if isinstance(e, list):
        return sum(count_ints(x) for x in e)
    if 'int' in e:
        return 1
    return sum(count_ints(x) for x in e.get('args', ())) if 'prim' in e else 0


def nonminimal_mutants(e):
    n = count_ints(e)
    for target in range(n):
        for groups in (1, 2):
            seen = [0]

            def zint(v, target=target, groups=groups, seen=seen):
                i = seen[0]
                seen[0] += 1
                return pad_zint(v, groups) if i == target else R.enc_zint(v)

            yield 'nonmin', R.encode(e, zint)


def nontrivial_expr(e, enc):
    return isinstance(e, list) and len(e) > 0 or (isinstance(e, dict) and ('args' in e or 'annots' in e)) or len(enc) > 2


def run_expr(r: Result, e, mutate, tag):
    r.ev()
    exp, vs = check_expr(e)
    if nontrivial_expr(e, exp):
        r.nt(exp)
    r.out(f'{tag}|expr|' + ('ok' if not vs else 'FAIL'))
    case = {'k': 'expr', 'expr_json': dumps(e)}
    for d, detail in vs:
        r.viol(d, case, detail)
    if mutate:
        for how, m in itertools.chain(mutants(exp), nonminimal_mutants(e)):
            run_bytes(r, m, how, e)
    return case


def run_bytes(r: Result, m, how, origin=None):
    r.ev()
    lab, vs = judge_bytes(m, how)
    r.out(lab)
    if vs is None:
        r.no_verdict += 1
        r.extra['mutants_no_verdict'] += 1
        return
    r.extra['mutants_rejected_by_reference' if '|ref rejects' in lab else 'mutants_accepted_by_reference'] += 1
    for d, detail in vs:
        r.viol(d, {'k': 'bytes', 'data': m, 'how': how, 'from_json': dumps(origin) if origin is not None else None}, detail)


def check_int(n):
    """forge_int / unforge_int / forge_nat against the reference; non-minimal spellings through unforge_micheline."""
    ns = R.dec_of(n)[:120]   # never format n itself: the interpreter's int->str digit limit is a process-global the code under test may touch
    from pytezos.michelson.forge import forge_int, forge_nat, unforge_int
    out = []
    exp = R.enc_zint(n)
    try:
        got = forge_int(n)
        if got != exp:
            out.append(('forge_int differs from the reference', f'n={ns}: {got.hex():.100} vs {exp.hex():.100}'))
        back = unforge_int(got + b'\x99')  # the decoder must stop at the end of the number
        if tuple(back) != (n, len(exp)):
            out.append(('unforge_int(forge_int(n)) != (n, length)', f'n={ns}: {back!r:.200}'))
    except Exception as ex:
        out.append(('forge_int / unforge_int raises on an integer', f'n={ns}: {type(ex).__name__}: {ex}'))
    if n >= 0:
        try:
            g = forge_nat(n)
            if g != R.enc_nat(n):
                out.append(('forge_nat differs from the reference', f'n={ns}: {g.hex():.100} vs {R.enc_nat(n).hex():.100}'))
        except Exception as ex:
            out.append(('forge_nat raises on a natural number', f'n={ns}: {type(ex).__name__}: {ex}'))
    else:
        try:
            g = forge_nat(n)
            out.append(('forge_nat encodes a negative number', f'n={ns}: {g.hex():.100}'))
        except Exception:
            pass
    return out


def run_int(r: Result, n):
    r.ev()
    vs = check_int(n)
    if len(R.enc_zint(n)) > 1:
        r.nt(('int', n))
    r.out('int|codec|' + ('ok' if not vs else 'FAIL'))
    case = {'k': 'int', 'n': R.dec_of(n)}
    for d, detail in vs:
        r.viol(d, case, detail)
    e = {'int': R.dec_of(n)}
    for groups in (1, 2):
        run_bytes(r, b'\x00' + pad_zint(n, groups), 'nonmin', e)
    return case


def int_edges():
    out = []
    for k in range(0, 600):
        p = 2 ** (6 + 7 * k)
        for d in (-1, 0, 1):
            out += [p + d, -(p + d)]
    for v in (2 ** 62, 2 ** 63, 2 ** 64, 2 ** 4096):
        for d in (-1, 0, 1):
            out += [v + d, -(v + d)]
    return out


def tag_sweep_cases(tier):
    """(how, bytes): every byte value as node tag before every tail, every byte value as primitive tag in every form."""
    P = params(tier)
    tails = {b''}
    for n in range(1, P['tails'] + 1):
        for t in gen('S', n):
            tails.add(R.encode(t)[1:])
    tails = sorted(tails)
    for t in range(256):
        for tail in tails:
            yield 'nodetag', bytes([t]) + tail
    forms = [R.encode(mk(('prim', 'parameter', a), tuple({'int': str(i)} for i in range(k)))) for k in range(5) for a in ANN]
    forms.append(bytes.fromhex('0400' + '00000000'))      # annotated form with an empty annotation block
    forms.append(bytes.fromhex('0900' + '00000000' * 2))  # generic form with no args
    for f in forms:
        assert f[1] == 0
        for t in range(256):
            yield 'primtag', f[:1] + bytes([t]) + f[2:]


# ----------------------------------------------------------------------------------------------- shards
def run_shard(spec, tier):
    r = Result()
    kind = spec[0]
    last = None
    if kind == 'tree':
        _, alph, n, hi, part, parts, mut = spec
        for i, e in enumerate(gen(alph, n, hi)):
            if i % parts != part:
                continue
            last = run_expr(r, e, mut, f'{alph}{n}')
            if len(r.samples) < 1:
                r.sample(last)
    elif kind == 'leaf':
        _, li, part, parts = spec
        P = params(tier)
        leaf = full_leaves()[li]
        big = is_big_leaf(leaf)
        for i, c in enumerate(contexts(P['ctx'][1] if big else P['ctx'][0])):
            if i % parts != part:
                continue
            last = run_expr(r, fill(c, leaf), True, 'Lbig' if big else 'L')
    elif kind == 'prims':
        _, part, parts = spec
        for i, e in enumerate(prim_forms()):
            if i % parts == part:
                last = run_expr(r, e, True, 'P')
    elif kind == 'tagsweep':
        _, part, parts = spec
        for i, (how, m) in enumerate(tag_sweep_cases(tier)):
            if i % parts == part:
                run_bytes(r, m, how)
                last = {'k': 'bytes', 'data': m, 'how': how, 'from_json': None}
    elif kind == 'ints':
        _, lo, hi = spec
        for n in range(lo, hi):
            last = run_int(r, n)
    elif kind == 'intedges':
        _, part, parts = spec
        for i, n in enumerate(int_edges()):
            if i % parts == part:
                last = run_int(r, n)
    elif kind == 'inj':
        from pytezos.michelson.forge import forge_micheline
        _, part, parts = spec
        seen: dict = {}
        for e in universe(tier):
            try:
                b = forge_micheline(e)
            except Exception:
                continue  # reported by the tree shards
            if zlib.crc32(b) % parts != part:
                continue
            r.ev()
            key = dumps(R.normalize(e))
            other = seen.setdefault(b, key)
            if other != key:
                r.out('inj|CLASH')
                r.viol('two different expressions forge to the same bytes', {'k': 'clash', 'a_json': other, 'b_json': key},
                       f'{other:.300} and {key:.300} both forge to {b.hex():.200}')
            else:
                r.out('inj|distinct-or-same-expression')
        r.extra['injectivity_dict_entries'] += len(seen)
        if seen:
            last = {'k': 'expr', 'expr_json': next(iter(seen.values()))}
    if last is not None:
        r.sample(last)
    return r


# ----------------------------------------------------------------------------------------------- replay / observe
def replay(case):
    from pytezos.michelson.forge import forge_micheline
    k = case['k']
    if k == 'expr':
        return check_expr(json.loads(case['expr_json']))[1]
    if k == 'bytes':
        return judge_bytes(case['data'], case.get('how', 'bytes'))[1] or []
    if k == 'int':
        n = int(case['n'])
        out = check_int(n)
        for groups in (1, 2):
            out += judge_bytes(b'\x00' + pad_zint(n, groups), 'nonmin')[1] or []
        return out
    if k == 'clash':
        a, b = json.loads(case['a_json']), json.loads(case['b_json'])
        if R.normalize(a) != R.normalize(b) and forge_micheline(a) == forge_micheline(b):
            return [('two different expressions forge to the same bytes', f'{case["a_json"]:.300} / {case["b_json"]:.300}')]
        return []
    raise ValueError(k)


def observe(case):
    from pytezos.michelson.forge import forge_micheline
    k = case['k']
    if k == 'expr':
        e = json.loads(case['expr_json'])
        b = forge_micheline(e)
        return [b.hex(), repr(impl_decode(b))]
    if k == 'bytes':
        return repr(impl_decode(case['data']))
    if k == 'int':
        return [repr(check_int(int(case['n'])))]
    return None
