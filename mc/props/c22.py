"""C22 — a failing REPL cell leaves the session as if it never ran.

Model checking + fault injection, differential oracle (no expected values anywhere):

  * BFS over CLEAN histories h of REPL cells (every cell succeeds) up to length L1, deduplicated on the canonical
    session state (stack in structural form incl. every big_map's id/items/removed keys, every data attribute of the
    context: declared sections, patched environment, origination / big_map / sapling counters, big_maps table,
    balance_update, and for every big_map on the stack WHICH context object it is attached to);
  * for every reachable state, every FAILING VARIANT f: each cell of the alphabet with a failing instruction inserted
    at EVERY instruction position (FAIL, `PUSH int 1; FAILWITH`, stack underflow `DROP 99`, ill-typed ADD), a parse error
    (before anything runs), and every alphabet cell that fails by itself in that state.  The prefix of the cell really
    runs (big_map ids allocated, context patched, types declared, stack mutated) before the failure strikes;
  * for every clean continuation g (|g| <= L2, cells of the same alphabet):
        session B = h . f . g      against      session A = h . g   ("the session with the failing cell removed")
    - immediately after f the canonical state must equal the canonical state before f, and every big_map on the stack
      must be attached to the interpreter's CURRENT context object;
    - every cell of g must give the same observation in A and B: error, stdout, rendered stack, COMMIT / RUN /
      BIG_MAP_DIFF lazy_diff and result (big_map ids included), and the same canonical state afterwards;
  * "some cells fail": two failing cells in a row (f1 . f2) before g, for a reduced variant set;
  * NESTED big_maps: the rollback has to re-bind every big_map reachable from the stack, whatever container it sits in.
    Structured clean histories  decl T . EMPTY_BIG_MAP [. UPDATE] . wrap_1 ... wrap_k  put an empty / a non-empty big_map
    under every chain of k value constructors out of {or-left, or-right, option, pair-first, pair-second, list, map value}
    (T = the resulting type, declared as storage so that `NIL operation ; PAIR ; COMMIT` is a meaningful later cell);
    failing variants and continuations as above.
Sessions are replayed from scratch on `Interpreter.reset()` (fresh stack + context); nothing is forked by copying,
because copying is the mechanism under test.
"""
from __future__ import annotations

import itertools
import json

from mc.engine.report import Result

ID = 'C22'
LEVEL = 'model_checking'
RULE = ('BFS over clean cell histories (dedup on canonical session state) x failing variants (alphabet cell x every '
        'instruction position x failure kind; parse error; naturally failing cells) x clean continuations; each (h,f,g) is '
        'one evaluation: session h.f.g against session h.g cell by cell plus canonical state right after f. '
        'states = distinct canonical session states; transitions = Interpreter.execute calls in judged sessions; '
        'traces = complete sessions h.f.g replayed and compared. non-trivial = distinct (state, failing variant) whose '
        'failing cell ran at least one instruction before failing (side effects to undo). Phase "nested": the clean histories '
        'are not BFS states but the structured family decl T . EMPTY_BIG_MAP [. UPDATE] . k value constructors (or-left, '
        'or-right, option, pair-first, pair-second, list, map value), every chain of constructors up to the depth bound')
BOUND = {'quick': '15-cell alphabet (incl. BEGIN with a big_map id), failure kinds incl. a failure inside a DIP body, continuations |g|=1; clean histories |h|<=2: all 4 failure kinds at every instruction position + '
                  '2 parse errors + natural failures; |h|=3: {FAIL, ill-typed ADD} at every position + {FAILWITH, underflow} at the '
                  'end + parse errors + natural failures; two failing cells in a row for |h|<=2; nested: empty and non-empty big_map under '
                  'every chain of 1..2 constructors out of 7 (112 histories) x {FAIL at every position >= 1 of 16 cells (15 + NIL/PAIR/COMMIT), '
                  'FAIL at start, parse errors, natural failures} x 16 continuations (the 16 cells)',
         'thorough': '23-cell alphabet; |h|<=2, |g|=1: all 4 failure kinds at every instruction position + parse errors + natural '
                     'failures; |h|=3, |g|=1: {FAIL, ADD} at every position + {FAILWITH, underflow} at the end + parse + natural; '
                     '|h|<=1, |g|=2: FAIL at every position + parse + natural; two failing cells in a row for |h|<=2, |g|=1; nested: empty and '
                     'non-empty big_map under every chain of 1..2 constructors out of 7 (112 histories) x {FAIL, ill-typed ADD at every '
                     'position of 24 cells (23 + NIL/PAIR/COMMIT), DIP-body failure at the end, parse, natural} x 24 continuations; under every '
                     'chain of 3 constructors (686 histories) x the quick variant set x 16 continuations'}
ASSUMPTIONS = ['michelson_to_micheline is a pure function of the cell text: the harness memoises it (PLY table construction '
               'is 80% of a cell otherwise); a session starts from Interpreter.reset(), which installs a fresh stack and context',
               'the failing cell itself is not compared (its own error/stdout are its business); an exception that escapes '
               'Interpreter.execute (parse error at end of input raises AttributeError inside MichelsonParserError) counts as '
               'a failing cell and only the session state is judged',
               'differential oracle: determinism of the interpreter (checked by the runner on the first and last case)']
LEVEL_TEXT = ('every (history, failure point, continuation) within the bound is executed on the real interpreter and compared '
              'with the same session without the failing cell; the bound is small but every instruction position of every '
              'alphabet cell is a crash point')

DECL_CODE = 'code { CDR ; NIL operation ; PAIR }'
CELLS_QUICK = [
    ('decl big_map', ['storage (big_map int int)', 'parameter unit', DECL_CODE]),
    ('PUSH', ['PUSH int 1']),
    ('DROP', ['DROP']),
    ('EMPTY_BIG_MAP', ['EMPTY_BIG_MAP int int']),
    ('UPDATE', ['PUSH (option int) (Some 1)', 'PUSH int 0', 'UPDATE']),
    ('DUP', ['DUP']),
    ('BEGIN big_map', ['BEGIN Unit {}']),
    ('BEGIN big_map id', ['BEGIN Unit 5']),   # storage given as the id of an existing big_map: registers (5, copy) in the context
    ('CDR', ['CDR']),
    ('NIL PAIR', ['NIL operation', 'PAIR']),
    ('COMMIT', ['COMMIT']),
    ('finish', ['CDR', 'NIL operation', 'PAIR', 'COMMIT']),
    ('RUN big_map', ['RUN %default Unit { Elt 0 1 }']),
    ('PATCH', ['PATCH AMOUNT 5']),
    ('BIG_MAP_DIFF', ['BIG_MAP_DIFF']),
]
CELLS_MORE = [
    ('decl unit', ['storage unit', 'parameter unit', DECL_CODE]),
    ('decl two big_maps', ['storage (pair (big_map int int) (big_map int int))', 'parameter unit', DECL_CODE]),
    ('BEGIN two big_maps', ['BEGIN Unit (Pair {} { Elt 0 1 })']),
    ('BEGIN unit', ['BEGIN Unit Unit']),
    ('RUN unit', ['RUN %default Unit Unit']),
    ('CAR', ['CAR']),
    ('RESET', ['RESET']),
    ('AMOUNT DUMP', ['AMOUNT', 'DUMP']),
]
FAIL_TEXT = {
    'FAIL': ['FAIL'],
    'FAILWITH': ['PUSH int 1', 'FAILWITH'],
    'underflow': ['DROP 99'],
    'ADD': ['PUSH string "a"', 'PUSH int 1', 'ADD'],
    # the failure strikes inside a DIP body, i.e. while part of the stack is protected
    'DIPFAIL': ['PUSH int 7', 'PUSH int 8', 'DIP { FAIL }'],
}
PARSE_ERRORS = {'parse': 'PUSH int 1 ; ) ; DROP', 'parse-eof': 'PUSH int 1 ; {'}
NSHARDS = 32


# ---- nested big_maps: value constructors wrapping the top of the stack (name, instructions(T), resulting type(T))
BM_TYPE = '(big_map int int)'
WRAPS = [
    ('or-left', lambda T: ['LEFT unit'], lambda T: f'(or {T} unit)'),
    ('or-right', lambda T: ['RIGHT unit'], lambda T: f'(or unit {T})'),
    ('option', lambda T: ['SOME'], lambda T: f'(option {T})'),
    ('pair-first', lambda T: ['UNIT', 'SWAP', 'PAIR'], lambda T: f'(pair {T} unit)'),
    ('pair-second', lambda T: ['UNIT', 'PAIR'], lambda T: f'(pair unit {T})'),
    ('list', lambda T: [f'NIL {T}', 'SWAP', 'CONS'], lambda T: f'(list {T})'),
    ('map value', lambda T: ['SOME', f'EMPTY_MAP int {T}', 'SWAP', 'PUSH int 0', 'UPDATE'], lambda T: f'(map int {T})'),
]
NEST_DEPTH = 3      # constructor chains for which alphabet cells exist
FINISH_TOP = 'finish top'


def wrap_chains(lo, hi):
    """Every chain of lo..hi constructors (indices into WRAPS), shortest first."""
    return [list(ch) for d in range(lo, hi + 1) for ch in itertools.product(range(len(WRAPS)), repeat=d)]


def chain_type(chain):
    T = BM_TYPE
    for w in chain:
        T = WRAPS[w][2](T)
    return T


def wrap_cell(chain_before, w):
    """(name, instructions) of the cell applying constructor w to a value of type chain_type(chain_before)."""
    T = chain_type(chain_before)
    ins = WRAPS[w][1](T)
    typed = any(T in i for i in ins)
    return (f'wrap {WRAPS[w][0]}' + (f' of {T}' if typed else ''), ins)


def nested_cells():
    """Generated alphabet cells of the nested phases (appended AFTER the fixed alphabet: recorded indices stay valid)."""
    cells = [(FINISH_TOP, ['NIL operation', 'PAIR', 'COMMIT'])]
    seen = {FINISH_TOP}
    for chain in wrap_chains(0, NEST_DEPTH):
        if chain:
            c = (f'decl {chain_type(chain)}', [f'storage {chain_type(chain)}', 'parameter unit', DECL_CODE])
            if c[0] not in seen:
                seen.add(c[0])
                cells.append(c)
        if len(chain) < NEST_DEPTH:
            for w in range(len(WRAPS)):
                c = wrap_cell(chain, w)
                if c[0] not in seen:
                    seen.add(c[0])
                    cells.append(c)
    return cells


_CELLS = {}


def cells_for(tier):
    tier = 'quick' if tier == 'quick' else 'thorough'
    if tier not in _CELLS:
        _CELLS[tier] = (CELLS_QUICK if tier == 'quick' else CELLS_QUICK + CELLS_MORE) + nested_cells()
    return _CELLS[tier]


def core_indices(tier, core='tier'):
    """Indices of the fixed alphabet: the quick cells ('quick') or all fixed cells of the tier ('tier')."""
    return list(range(len(CELLS_QUICK) if (tier == 'quick' or core == 'quick') else len(CELLS_QUICK) + len(CELLS_MORE)))


def cell_text(cells, i):
    return ' ; '.join(cells[i][1])


def variant_text(cells, v):
    """v = ['inj', cell, pos, kind] | ['parse', name] | ['nat', cell]"""
    if v[0] == 'parse':
        return PARSE_ERRORS[v[1]]
    if v[0] == 'nat':
        return cell_text(cells, v[1])
    ins = cells[v[1]][1]
    return ' ; '.join(ins[:v[2]] + FAIL_TEXT[v[3]] + ins[v[2]:])


def variant_class(cells, v):
    if v[0] == 'parse':
        return v[1]
    if v[0] == 'nat':
        return f'natural failure of {cells[v[1]][0]}'
    n = len(cells[v[1]][1])
    pos = 'start' if v[2] == 0 else ('end' if v[2] == n else 'middle')
    return f'{v[3]} at {pos} of {cells[v[1]][0]}'


def injected(cells, idxs, kinds_all, kinds_end, skip_start=False):
    """Failing variants of the cells idxs.  skip_start: a failure before the first instruction is the same whatever cell
    follows it, so it is kept for the first cell only."""
    out = []
    for n, ci in enumerate(idxs):
        ins = cells[ci][1]
        for p in range(len(ins) + 1):
            if p == 0 and skip_start and n > 0:
                continue
            for k in kinds_all:
                out.append(['inj', ci, p, k])
        for k in kinds_end:
            out.append(['inj', ci, len(ins), k])
    return out


# --------------------------------------------------------------------------------------------- real sessions
_INTERP = None
_PARSE = {}


def interpreter():
    """One Interpreter per process (its constructor builds PLY tables, 4 ms); every session starts with reset()."""
    global _INTERP
    if _INTERP is None:
        import pytezos.michelson.repl as R
        real = R.michelson_to_micheline
        if not getattr(real, '_c22_memo', False):
            def memo(code, parser=None):
                hit = _PARSE.get(code)
                if hit is None:
                    try:
                        hit = ('ok', json.dumps(real(code)))
                    except Exception as e:  # parser errors are part of the function's behaviour
                        hit = ('err', e)
                    _PARSE[code] = hit
                if hit[0] == 'err':
                    raise hit[1]
                return json.loads(hit[1])
            memo._c22_memo = True
            R.michelson_to_micheline = memo
        _INTERP = R.Interpreter()
    _INTERP.reset()
    return _INTERP


def cv(x, ctx, att=None):
    """Structural canonical form of a stack value (big_maps expanded).  `att` collects, in walk order, to which context
    object each big_map is attached: 'current' (ctx), 'none', or 'DISCARDED' (some other context object)."""
    from pytezos.michelson.types.base import MichelsonType, Undefined
    from pytezos.michelson.types.big_map import BigMapType
    if isinstance(x, BigMapType):
        if att is not None:
            att.append('current' if x.context is ctx else ('none' if x.context is None else 'DISCARDED'))
        return ['big_map', x.ptr, [[cv(k, ctx, att), cv(v, ctx, att)] for k, v in x.items],
                sorted(json.dumps(cv(k, ctx)) for k in x.removed_keys)]
    if isinstance(x, MichelsonType):
        return [x.prim, {k: cv(v, ctx, att) for k, v in sorted(vars(x).items()) if k != 'context'}]
    if isinstance(x, (list, tuple)):
        return [cv(i, ctx, att) for i in x]
    if isinstance(x, dict):
        return {str(k): cv(v, ctx, att) for k, v in sorted(x.items(), key=lambda kv: str(kv[0]))}
    if isinstance(x, type(Undefined)):     # the empty branch of an `or`: pytezos compares it with ==, a copy is as good
        return 'Undefined'
    if x is None or isinstance(x, (bool, int, str)):
        return x
    return repr(x)


def canon(ip):
    """Canonical session state: stack, context data attributes, big_map attachments."""
    ctx = ip.context
    att = []
    stack = [[json.dumps(type(o).as_micheline_expr(), sort_keys=True), cv(o, ctx, att)] for o in ip.stack.items]
    cx = {k: cv(v, ctx, att) for k, v in sorted(vars(ctx).items())}
    return {'stack': stack, 'protected': ip.stack.protected, 'context': cx, 'attach': att}


def collect(instrs, out):
    """COMMIT / RUN / BIG_MAP_DIFF results inside result.instructions (what the Jupyter kernel displays)."""
    for ins in getattr(instrs, 'items', None) or []:
        if hasattr(ins, 'lazy_diff'):
            res = getattr(ins, 'result', None)
            out.append([type(ins).__name__, json.dumps(ins.lazy_diff, sort_keys=True), repr(res),
                        None if res is None else cv(res, None)])
        if isinstance(getattr(ins, 'items', None), list):
            collect(ins, out)
    return out


def run_cell(ip, text):
    """-> observation dict of one cell."""
    try:
        res = ip.execute(text)
    except Exception as e:  # escaped Interpreter.execute
        return {'error': f'ESCAPED {type(e).__name__}', 'stdout': None, 'stack': [repr(x) for x in ip.stack.items], 'instr': []}
    err = None
    if res.error is not None:
        err = f'{type(res.error).__name__}{tuple(str(a) for a in res.error.args)}'
    return {'error': err, 'stdout': list(res.stdout), 'stack': [repr(x) for x in ip.stack.items],
            'instr': collect(res.instructions, []) if res.instructions is not None else []}


def run_session(texts, canon_from=0):
    """Fresh session; -> list of (observation, canonical state after the cell | None before index canon_from)."""
    ip = interpreter()
    out = []
    for n, t in enumerate(texts):
        o = run_cell(ip, t)
        out.append((o, canon(ip) if n >= canon_from else None))
    return out, canon(ip)


def ckey(c):
    return json.dumps(c, sort_keys=True)


# --------------------------------------------------------------------------------------------- comparison
def first_diff(a, b, path=''):
    """Path of the first difference between two JSON-like values."""
    if type(a) != type(b):
        return path or '.'
    if isinstance(a, dict):
        for k in sorted(set(a) | set(b)):
            if k not in a or k not in b:
                return f'{path}.{k}'
            d = first_diff(a[k], b[k], f'{path}.{k}')
            if d:
                return d
        return None
    if isinstance(a, list):
        if len(a) != len(b):
            return path or '.'
        for i, (x, y) in enumerate(zip(a, b)):
            d = first_diff(x, y, f'{path}[{i}]')
            if d:
                return d
        return None
    return None if a == b else (path or '.')


def component(path):
    """Coarse name of the state component a difference path lies in."""
    if path.startswith('.context.'):
        return 'context.' + path.split('.')[2].split('[')[0]
    if path.startswith('.stack'):
        return 'stack'
    if path.startswith('.attach'):
        return 'big_map attachment'
    return path.strip('.') or 'state'


def compare(cells, h, fs, g):
    """Run A = h.g and B = h.fs.g (fs: list of failing variants); -> (violations, info)."""
    ht = [cell_text(cells, i) for i in h]
    gt = [cell_text(cells, i) for i in g]
    ft = [variant_text(cells, v) for v in fs]
    A, _ = run_session(ht + gt, len(h) - 1)
    B, _ = run_session(ht + ft + gt, len(h) - 1)
    return judge(cells, h, fs, g, A, B)


_FRESH = None


def fresh_canon():
    global _FRESH
    if _FRESH is None:
        _FRESH = canon(interpreter())
    return _FRESH


def judge(cells, h, fs, g, A, B):
    """A = observations of h.g, B = observations of h.fs.g  ->  (violations, info)."""
    out = []
    nh, nf = len(h), len(fs)
    info = {'failed': True, 'stale': False}
    pre = A[nh - 1][1] if nh else fresh_canon()
    for j in range(nf):
        if B[nh + j][0]['error'] is None:
            info['failed'] = False      # not a failing cell in this state: nothing to judge
            return [], info
    for j in range(nf):
        o, c = B[nh + j]
        vclass = variant_class(cells, fs[j])
        if 'DISCARDED' in c['attach']:
            info['stale'] = True
            out.append(('after a failing cell a big_map on the restored stack is attached to a discarded context object',
                        f'failing cell {vclass!r}: stack {[x[1] for x in c["stack"]]} attachments {c["attach"]}'))
        elif c['attach'] != pre['attach']:
            out.append(('state right after a failing cell differs from the state before it: big_map attachment',
                        f'failing cell {vclass!r}: {c["attach"]} vs {pre["attach"]}'))
        d = first_diff({k: v for k, v in pre.items() if k != 'attach'}, {k: v for k, v in c.items() if k != 'attach'})
        if d:
            out.append((f'state right after a failing cell differs from the state before it: {component(d)}',
                        f'failing cell {vclass!r}: first difference at {d}: {_at(c, d)} vs {_at(pre, d)}'))
    tag = 'with a stale big_map attachment, ' if info['stale'] else ''
    for j in range(len(g)):
        (oa, ca), (ob, cb) = A[nh + j], B[nh + nf + j]
        name = cells[g[j]][0]
        after = [variant_class(cells, v) for v in fs]
        for field, what in (('error', 'error'), ('stdout', 'stdout'), ('stack', 'stack'), ('instr', 'lazy_diff / result')):
            if oa[field] != ob[field]:
                out.append((f'{tag}a later cell observes a different {what} than in the session without the failing cell',
                            f'cell {name!r} after {after}: {str(ob[field])[:300]} vs {str(oa[field])[:300]}'))
                break
        else:
            d = first_diff(ca, cb)
            if d:
                out.append((f'{tag}state after a later cell differs from the session without the failing cell: {component(d)}',
                            f'cell {name!r} after {after}: first difference at {d}: {_at(cb, d)} vs {_at(ca, d)}'))
    return out, info


def _at(c, path):
    try:
        cur = c
        for part in path.replace(']', '').replace('[', '.').strip('.').split('.'):
            cur = cur[int(part)] if isinstance(cur, list) else cur[part]
        return str(cur)[:120]
    except Exception:
        return '?'


# --------------------------------------------------------------------------------------------- BFS over clean histories
_BFS = {}


def clean_states(tier, L1):
    """Deterministic BFS over clean histories: list of (history, canonical-state key), shortest history first."""
    key = (tier, L1)
    if key in _BFS:
        return _BFS[key]
    cells = cells_for(tier)
    _, c0 = run_session([])
    seen = {ckey(c0)}
    states = [([], ckey(c0))]
    frontier = [[]]
    for depth in range(L1):
        nxt = []
        for h in frontier:
            ht = [cell_text(cells, i) for i in h]
            for ci in core_indices(tier):
                sess, c = run_session(ht + [cell_text(cells, ci)], len(ht) + 1)
                if sess[-1][0]['error'] is not None:
                    continue
                k = ckey(c)
                if k in seen:
                    continue
                seen.add(k)
                states.append((h + [ci], k))
                nxt.append(h + [ci])
        frontier = nxt
    _BFS[key] = states
    return states


def nested_states(tier, lo, hi):
    """Structured clean histories of the nested phases: decl T . EMPTY_BIG_MAP [. UPDATE] . constructor chain (lo..hi
    constructors); -> list of (history, canonical-state key | None when the history does not run cleanly)."""
    key = (tier, 'nested', lo, hi)
    if key in _BFS:
        return _BFS[key]
    cells = cells_for(tier)
    idx = {c[0]: i for i, c in enumerate(cells)}
    states = []
    for chain in wrap_chains(lo, hi):
        for create in (['EMPTY_BIG_MAP'], ['EMPTY_BIG_MAP', 'UPDATE']):
            h = [idx[f'decl {chain_type(chain)}']] + [idx[n] for n in create]
            h += [idx[wrap_cell(chain[:n], w)[0]] for n, w in enumerate(chain)]
            sess, c = run_session([cell_text(cells, i) for i in h], len(h))
            clean = all(o['error'] is None for o, _ in sess)
            states.append((h, ckey(c) if clean else None))
    _BFS[key] = states
    return states


def plan(tier):
    """Phases: clean-history bound L1 (or, nested phases, the range of constructor-chain lengths), failure kinds at every
    position / at the end only, continuation length L2, one or two failing cells, which fixed cells serve as failing
    cells and continuations ('core')."""
    nested2 = {'name': 'nested', 'nested': (1, 2), 'D0': 0, 'kinds_all': ['FAIL'], 'kinds_end': [], 'L2': 1, 'double': False,
               'core': 'quick', 'skip_start': True}
    if tier == 'quick':
        return [{'name': 'single', 'L1': 2, 'D0': 0, 'kinds_all': ['FAIL', 'FAILWITH', 'underflow', 'ADD'], 'kinds_end': ['DIPFAIL'], 'L2': 1, 'double': False},
                {'name': 'single-3', 'L1': 3, 'D0': 3, 'kinds_all': ['FAIL', 'ADD'], 'kinds_end': ['FAILWITH', 'underflow'], 'L2': 1, 'double': False},
                {'name': 'double', 'L1': 2, 'D0': 0, 'kinds_all': ['FAIL'], 'kinds_end': ['ADD'], 'L2': 1, 'double': True},
                nested2]
    return [{'name': 'single', 'L1': 2, 'D0': 0, 'kinds_all': ['FAIL', 'FAILWITH', 'underflow', 'ADD', 'DIPFAIL'], 'kinds_end': [], 'L2': 1, 'double': False},
            {'name': 'single-3', 'L1': 3, 'D0': 3, 'kinds_all': ['FAIL', 'ADD'], 'kinds_end': ['FAILWITH', 'underflow'], 'L2': 1, 'double': False},
            {'name': 'deep', 'L1': 1, 'D0': 0, 'kinds_all': ['FAIL'], 'kinds_end': [], 'L2': 2, 'double': False},
            {'name': 'double', 'L1': 2, 'D0': 0, 'kinds_all': ['FAIL'], 'kinds_end': ['ADD'], 'L2': 1, 'double': True},
            {'name': 'nested', 'nested': (1, 2), 'D0': 0, 'kinds_all': ['FAIL', 'ADD'], 'kinds_end': ['DIPFAIL'], 'L2': 1, 'double': False,
             'core': 'tier', 'skip_start': False},
            dict(nested2, name='nested-3', nested=(3, 3))]


def phase_states(tier, ph):
    return nested_states(tier, *ph['nested']) if 'nested' in ph else clean_states(tier, ph['L1'])


def phase_cells(tier, ph):
    """Indices of the cells used as failing cells and as continuations in phase ph."""
    idxs = core_indices(tier, ph.get('core', 'tier'))
    if 'nested' in ph:
        idxs = idxs + [[c[0] for c in cells_for(tier)].index(FINISH_TOP)]
    return idxs


def shards(tier, seed):
    # the clean-state enumeration runs once, here in the parent; the forked workers inherit its result (_BFS)
    for ph in plan(tier):
        phase_states(tier, ph)
    return [(pi, s) for pi in range(len(plan(tier))) for s in range(NSHARDS)]


def variants_for(cells, ph, idxs):
    vs = injected(cells, idxs, ph['kinds_all'], ph['kinds_end'], ph.get('skip_start', False))
    if not ph['double']:
        vs += [['parse', n] for n in PARSE_ERRORS]
        vs += [['nat', ci] for ci in idxs]
    return vs


def run_shard(spec, tier):
    pi, sh = spec
    ph = plan(tier)[pi]
    cells = cells_for(tier)
    r = Result()
    states = phase_states(tier, ph)
    idxs = phase_cells(tier, ph)
    conts = [list(g) for g in itertools.product(idxs, repeat=ph['L2'])]
    first = True
    case = None
    for si, (h, sk) in enumerate(states):
        if si % NSHARDS != sh or len(h) < ph['D0']:
            continue
        if sk is None:      # a structured history that does not run cleanly on this tree: nothing to compare against
            r.no_verdict += 1
            r.out('nested history does not run cleanly (not judged)')
            continue
        r.state(sk)
        bm = ('nested big_map on stack' if 'nested' in ph else 'big_map on stack') if json.loads(sk)['attach'] else 'no big_map on stack'
        ht = [cell_text(cells, i) for i in h]
        # reference sessions A = h.g, once per state
        Aof = {}
        for g in conts:
            Aof[tuple(g)], _ = run_session(ht + [cell_text(cells, i) for i in g], len(h) - 1)
            r.transitions += len(h) + len(g)
        singles = variants_for(cells, ph, idxs)
        if ph['double']:
            names = [c[0] for c in cells]
            second = [['inj', names.index('PUSH'), 0, 'FAIL'], ['inj', names.index('EMPTY_BIG_MAP'), 1, 'FAIL'],
                      ['inj', names.index('BEGIN big_map'), 1, 'ADD']]
            fss = [[a, b] for a in singles for b in second]
        else:
            fss = [[v] for v in singles]
        for fs in fss:
            ft = [variant_text(cells, v) for v in fs]
            vcls = ' + '.join(variant_class(cells, v) for v in fs)
            applicable = True
            for g in conts:
                case = {'tier_cells': tier, 'h': h, 'f': fs, 'g': g}
                B, _ = run_session(ht + ft + [cell_text(cells, i) for i in g], len(h))
                r.transitions += len(h) + len(fs) + len(g)
                vs, info = judge(cells, h, fs, g, Aof[tuple(g)], B)
                if not info['failed']:
                    applicable = False
                    break
                r.ev()
                r.traces += 1
                kind = ' + '.join(v[3] if v[0] == 'inj' else v[0] for v in fs)
                if vs:
                    r.out(f'{kind}: trace left ({bm})')
                    for d, det in vs:
                        r.viol(d, case, f'h={[cells[i][0] for i in h]} f={vcls} g={[cells[i][0] for i in g]}: {det}')
                else:
                    r.out(f'{kind}: no trace ({bm})')
                if first:
                    r.sample(case)
                    first = False
            if not applicable:
                r.out('variant does not fail in this state (skipped)')
                continue
            if any(v[0] == 'inj' and v[2] > 0 for v in fs) or any(v[0] == 'nat' for v in fs):
                r.nt((sk, ft))
    if case is not None:
        r.sample(case)
    return r


def finalize(res, tier):
    res.notes.append('clean states are enumerated once by a deterministic BFS in the parent process (inherited by the forked '
                     f'workers); shard (phase, s) judges the states with index mod {NSHARDS} == s')
    for ph in plan(tier):
        if 'nested' in ph:
            st = phase_states(tier, ph)
            res.notes.append(f'phase {ph["name"]}: {len(st)} structured histories (big_map under {ph["nested"][0]}..{ph["nested"][1]} '
                             f'value constructors), {sum(1 for _, k in st if k is None)} of them not clean (not judged)')


# --------------------------------------------------------------------------------------------- replay / observe
def replay(case):
    cells = cells_for(case.get('tier_cells', 'thorough'))
    vs, info = compare(cells, list(case['h']), [list(v) for v in case['f']], list(case['g']))
    seen, out = set(), []
    for d, det in vs:
        if d not in seen:
            seen.add(d)
            out.append((d, det))
    return out


def observe(case):
    cells = cells_for(case.get('tier_cells', 'thorough'))
    texts = [cell_text(cells, i) for i in case['h']] + [variant_text(cells, list(v)) for v in case['f']] + \
            [cell_text(cells, i) for i in case['g']]
    sess, c = run_session(texts)
    return {'cells': [o for o, _ in sess], 'final': c}
