"""C06 — local operation forging is the canonical Tezos operation binary encoding.

Small-scope exhaustive input enumeration.  Universe (per tier, see BOUND):
  * every kind alone: (full product of the kind's own fields x a small set of manager headers) united with
    (a small set of own-field variants x the full set of manager headers);
  * every ordered pair of kinds over a reduced variant set per kind, two branches;
  * every ordered triple of kinds over a smaller variant set.
Every group is forged by the REAL `forge_operation_group` and judged by
  (1) an independent strict decoder (mc/ref/tezos_ops.py, schema driven, no pytezos):  decode(forge(g)) == normalise(g);
  (2) byte equality with the reference encoder;
  (3) injectivity: two different normalised groups never forge to the same bytes (per shard with the colliding
      pair, globally by comparing #distinct forged byte strings with #distinct groups).
"""
from __future__ import annotations

import itertools
import json

from mc.engine.report import Result, h64
from mc.ref import base58 as b58
from mc.ref import tezos_ops as T

ID = 'C06'
LEVEL = 'exploration'
RULE = ('every group of the universe is forged once; distinct = distinct normalised groups (keyed by the reference '
        'encoding); non-trivial = distinct groups with >=2 contents, or a multi-byte zarith number (>=128), or a present '
        'optional field (parameters / delegate / proof)')
BOUND = {
    'quick': '10 kinds; singles: full product of the kind\'s own fields (transaction: 9 amounts x 10 destinations x 12 entrypoints x 4 '
             'values) x 8 manager headers, plus 3-18 own-field variants x 407 headers (4 curves, hashes, numbers 0..2^64+1: diagonal, '
             'one-at-a-time, {0,128,2^64}^4); all 100 ordered kind pairs x variants^2 x 2 branches; all 1000 ordered kind triples x 2^3',
    'thorough': '10 kinds; singles: own-field product (transaction: 11 amounts x 30 destinations x 16 entrypoints x 7 values; numbers up '
                'to 2^128+5) x 16 headers, plus variants x 12544 headers (4 curves x 5 hashes x {0,127,128,16384,2^64}^4 + '
                'one-at-a-time over 11 numbers); all 100 ordered kind pairs x variants^2 x 2 branches; all 1000 ordered kind '
                'triples x up to 5^3 variants x 2 branches',
}
ASSUMPTIONS = [
    'reference layouts backed by recorded operations in the repository (operation hash / pinned signature): manager header, '
    'transaction with named entrypoint, reveal (pre-proof protocols), transfer_ticket, smart_rollup_add_messages, '
    'smart_rollup_execute_outbox_message, failing_noop',
    'reference layouts NOT backed by a repository vector, written from the protocol sources (operation_repr.ml, '
    'entrypoint_repr.ml): origination, delegation, register_global_constant, activate_account, the reveal `proof` option '
    '(0xff + 4-byte length + 96 bytes), tz3/tz4 tags, implicit destinations, reserved entrypoint tags 0..9 '
    '(default, root, do, set_delegate, remove_delegate, deposit, stake, unstake, finalize_unstake, set_delegate_parameters)',
    'smart-rollup (sr1) destinations of a manager transaction are not part of contract_id in current protocols; for them the '
    'check only asks decode(forge(g)) == g under the transaction_destination tag 3 and injectivity (oracle 2 not applied)',
    'failing_noop.arbitrary is taken as text and forged as its UTF-8 bytes (pytezos API convention pinned by '
    'test_failing_noop); whether a caller should pass hex as in the current RPC JSON schema is not judged',
    'field values are well-formed: activate_account.pkh is tz1, proofs are BLsig, entrypoint names 1..31 bytes',
]
LEVEL_TEXT = ('bounded exhaustive enumeration of operation groups over collision-forcing field alphabets; every case is decoded '
              'by an independent strict decoder and compared byte for byte with an independent encoder; exhaustive only over '
              'the stated alphabets, not over all 2^160 hashes or all Micheline values')

KINDS = ['reveal', 'transaction', 'origination', 'delegation', 'register_global_constant', 'transfer_ticket',
         'smart_rollup_add_messages', 'smart_rollup_execute_outbox_message', 'failing_noop', 'activate_account']
MANAGER = set(T.MANAGER_KINDS)

# ----------------------------------------------------------------------------- alphabets
H = [bytes(20),                                   # all zero
     bytes(range(20)),                            # starts 00 01: looks like a tz2-tagged hash
     b'\x01' + b'\xfe' * 18 + b'\x00',            # looks like an originated-contract frame
     b'\x03' + b'\xaa' * 18 + b'\x00',            # looks like a rollup frame
     b'\xff' * 20]
NUMS_Q = [0, 1, 127, 128, 16383, 16384, 2 ** 63, 2 ** 64, 2 ** 64 + 1, 2 ** 70, 2 ** 77 + 3]  # >= 2^70: more than 10 LEB128 groups
NUMS_T = NUMS_Q + [2 ** 32, 2 ** 128 + 5]
BRANCHES = [b58.enc('B', bytes(range(32))), b58.enc('B', b'\xff' * 32)]
UNIT = {'prim': 'Unit'}
VALUES = [UNIT, {'int': '-64'},
          {'prim': 'Pair', 'args': [{'int': '1'}, {'string': 'a'}], 'annots': ['%x']},
          [],
          {'bytes': '00ff'}, {'string': ''},
          {'prim': 'Pair', 'args': [{'int': '0'}, {'int': '128'}, [{'prim': 'Unit'}]]}]
ENTRYPOINTS = list(T.ENTRYPOINT_TAG) + ['a', 'x' * 31, 'Stake', 'defaul' + 't' * 24]
SCRIPTS = [
    {'code': [{'prim': 'parameter', 'args': [{'prim': 'unit'}]}, {'prim': 'storage', 'args': [{'prim': 'unit'}]},
              {'prim': 'code', 'args': [[{'prim': 'CDR'}, {'prim': 'NIL', 'args': [{'prim': 'operation'}]}, {'prim': 'PAIR'}]]}],
     'storage': UNIT},
    {'code': [{'prim': 'parameter', 'args': [{'prim': 'or', 'args': [{'prim': 'nat', 'annots': ['%stake']}, {'prim': 'bytes', 'annots': ['%b']}]}]},
              {'prim': 'storage', 'args': [{'prim': 'pair', 'args': [{'prim': 'nat'}, {'prim': 'string'}, {'prim': 'bytes'}]}]},
              {'prim': 'code', 'args': [[{'prim': 'CDR'}, {'prim': 'PUSH', 'args': [{'prim': 'int'}, {'int': '-1'}]}, {'prim': 'DROP'},
                                        {'prim': 'NIL', 'args': [{'prim': 'operation'}]}, {'prim': 'PAIR'}]]}],
     'storage': {'prim': 'Pair', 'args': [{'int': '18446744073709551616'}, {'string': 'é'}, {'bytes': ''}]}},
    # a script whose storage type mentions every nullary type primitive (each has its own tag in the binary form)
    {'code': [{'prim': 'parameter', 'args': [{'prim': 'unit'}]},
              {'prim': 'storage', 'args': [{'prim': 'pair', 'args': [{'prim': t} for t in (
                  'unit', 'chain_id', 'key', 'key_hash', 'signature', 'address', 'timestamp', 'mutez', 'bool', 'never', 'operation',
                  'bls12_381_fr', 'bls12_381_g1', 'bls12_381_g2', 'chest', 'chest_key')]}]},
              {'prim': 'code', 'args': [[{'prim': 'CDR'}, {'prim': 'NIL', 'args': [{'prim': 'operation'}]}, {'prim': 'PAIR'}]]}],
     'storage': UNIT},
]
PUBKEYS = [b58.enc('edpk', bytes(32)), b58.enc('edpk', b'\xff' * 32),
           b58.enc('sppk', b'\x02' + bytes(32)), b58.enc('sppk', b'\x03' + b'\xff' * 32),
           b58.enc('p2pk', b'\x02' + bytes(range(32))), b58.enc('p2pk', b'\x03' + b'\x00' * 31 + b'\x01'),
           b58.enc('BLpk', bytes(48)), b58.enc('BLpk', b'\xff' * 48)]
PROOFS = [b58.enc('BLsig', bytes(96)), b58.enc('BLsig', bytes(range(96)))]
MESSAGES = ['', '00', 'ff01', '00000000']
COMMITS = [T._b58_enc('src1', bytes(32)), T._b58_enc('src1', b'\xff' * 32), T._b58_enc('src1', bytes(range(32)))]


def pkh(curve: int, h: int) -> str:
    return b58.enc(T.PKH_KINDS[curve], H[h])


def addr(kind: str, h: int) -> str:
    return b58.enc(kind, H[h])


def headers(tier: str, full: bool):
    """Manager headers (source, fee, counter, gas_limit, storage_limit) as dicts."""
    nums = NUMS_Q if tier == 'quick' else NUMS_T
    out = []

    def add(src, a, b, c, d):
        out.append({'source': src, 'fee': str(a), 'counter': str(b), 'gas_limit': str(c), 'storage_limit': str(d)})

    if not full:
        pats = [(0, 1, 127, 128), (16383, 16384, 2 ** 63, 2 ** 64), (2 ** 64 + 1, 0, 128, 1), (128, 127, 2 ** 64, 0)]
        hs = [1, 4] if tier == 'quick' else [0, 1, 2]
        for c in range(4):
            for h in hs:
                add(pkh(c, h), *pats[(c + h) % 4])
        if tier == 'thorough':
            for c in range(4):
                add(pkh(c, c), 2 ** 32, 2 ** 128 + 5, 1, 16383)
        return out
    if tier == 'quick':
        for c in range(4):
            for n in nums:
                add(pkh(c, 1), n, n, n, n)
        for i in range(4):
            for n in nums:
                v = [1, 2, 3, 4]
                v[i] = n
                add(pkh(0, 0), *v)
        for c in range(4):
            for h in (0, 2, 4):
                add(pkh(c, h), 1, 2, 3, 4)
            for v in itertools.product([0, 128, 2 ** 64], repeat=4):
                add(pkh(c, 3), *v)
    else:
        red = [0, 127, 128, 16384, 2 ** 64]
        for c in range(4):
            for h in range(5):
                for v in itertools.product(red, repeat=4):
                    add(pkh(c, h), *v)
        for i in range(4):
            for n in nums:
                v = [1, 2, 3, 4]
                v[i] = n
                add(pkh(0, 0), *v)
    seen, uniq = set(), []
    for x in out:
        k = tuple(x.values())
        if k not in seen:
            seen.add(k)
            uniq.append(x)
    return uniq


def own_fields(kind: str, tier: str, full: bool):
    """The kind's own fields: full product (full=True) or the reduced variant list, simplest first."""
    q = tier == 'quick'
    nums = NUMS_Q if q else NUMS_T
    out = []
    if kind == 'transaction':
        if full:
            dests = ([pkh(c, 1) for c in range(4)] + [addr('KT1', h) for h in (2, 0, 4)] + [addr('sr1', 3)] + [pkh(0, 0), pkh(0, 4)]
                     if q else [b58.enc(k, x) for k in T.PKH_KINDS + ['KT1', 'sr1'] for x in H])
            eps = ENTRYPOINTS[:12] if q else ENTRYPOINTS
            vals = VALUES[:4] if q else VALUES
            params = [None] + [{'entrypoint': e, 'value': v} for e in eps for v in vals if (e, v) != ('default', UNIT)]
            for a in nums:
                for d in dests:
                    for p in params:
                        out.append({'amount': str(a), 'destination': d, **({'parameters': p} if p else {})})
        else:
            P = lambda e, v: {'entrypoint': e, 'value': VALUES[v]}
            out = [
                {'amount': '0', 'destination': pkh(0, 0)},
                {'amount': '128', 'destination': addr('KT1', 2), 'parameters': P('stake', 0)},
                {'amount': str(2 ** 64), 'destination': addr('KT1', 4), 'parameters': P('a', 1)},
                {'amount': '1', 'destination': addr('sr1', 3), 'parameters': P('default', 2)},
                {'amount': '127', 'destination': pkh(3, 1), 'parameters': P('x' * 31, 0)},
                {'amount': '0', 'destination': addr('KT1', 0), 'parameters': P('default', 1)},
                {'amount': '16384', 'destination': pkh(1, 1), 'parameters': P('root', 3)},
                {'amount': '1', 'destination': pkh(2, 2), 'parameters': P('set_delegate_parameters', 6)},
                {'amount': '0', 'destination': pkh(0, 0), 'parameters': P('do', 3)},
                {'amount': '0', 'destination': addr('KT1', 2), 'parameters': P('deposit', 4)},
                {'amount': '5', 'destination': pkh(0, 4), 'parameters': P('finalize_unstake', 0)},
                {'amount': '5', 'destination': pkh(0, 4), 'parameters': P('unstake', 1)},
            ]
    elif kind == 'reveal':
        for pk in PUBKEYS:
            for pr in [None] + PROOFS:
                out.append({'public_key': pk, **({'proof': pr} if pr else {})})
        if not full:
            out = [out[0], out[3 * 2], out[3 * 5 + 2], out[3 * 6], out[3 * 6 + 1], out[3 * 7 + 2]]
    elif kind == 'origination':
        dels = [None] + ([pkh(c, 1) for c in range(4)] if q or not full else [pkh(c, h) for c in range(4) for h in range(5)])
        for b in (nums if full else [0, 128, 2 ** 64 + 1]):
            for d in (dels if full else [None, pkh(0, 0), pkh(3, 2)]):
                for s in SCRIPTS:
                    out.append({'balance': str(b), **({'delegate': d} if d else {}), 'script': s})
    elif kind == 'delegation':
        dels = [None] + [pkh(c, h) for c in range(4) for h in range(5)]
        if not full:
            dels = [None, pkh(0, 0), pkh(1, 1), pkh(2, 2), pkh(3, 4)]
        out = [({'delegate': d} if d else {}) for d in dels]
    elif kind == 'register_global_constant':
        out = [{'value': v} for v in (VALUES + [SCRIPTS[1]['code']] if full else [VALUES[0], VALUES[2], VALUES[6]])]
    elif kind == 'transfer_ticket':
        if full:
            cont = VALUES[:3] if q else VALUES[:5]
            tys = [{'prim': 'unit'}, {'prim': 'int'}, {'prim': 'pair', 'args': [{'prim': 'int'}, {'prim': 'string'}], 'annots': [':t']}]
            tick = [addr('KT1', 2), addr('KT1', 0)] + ([] if q else [pkh(0, 1), addr('KT1', 4)])
            dst = [pkh(c, 1) for c in range(4)] + [addr('KT1', 2)] + ([] if q else [addr('KT1', 0), pkh(0, 0), pkh(3, 4)])
            eps = ['default', 'a', 'x' * 31, 'save'] + ([] if q else ['stake', 'é'])
            for c, t, k, a, d, e in itertools.product(cont, tys, tick, nums, dst, eps):
                out.append({'ticket_contents': c, 'ticket_ty': t, 'ticket_ticketer': k, 'ticket_amount': str(a),
                            'destination': d, 'entrypoint': e})
        else:
            mk = lambda c, t, k, a, d, e: {'ticket_contents': VALUES[c], 'ticket_ty': {'prim': t}, 'ticket_ticketer': k,
                                           'ticket_amount': str(a), 'destination': d, 'entrypoint': e}
            out = [mk(0, 'unit', addr('KT1', 2), 1, pkh(0, 0), 'default'), mk(1, 'int', addr('KT1', 0), 128, addr('KT1', 4), 'save'),
                   mk(5, 'string', addr('KT1', 4), 2 ** 64, pkh(3, 1), 'x' * 31), mk(4, 'bytes', addr('KT1', 2), 0, pkh(1, 2), 'a')]
    elif kind == 'smart_rollup_add_messages':
        lists = [[]] + [[a] for a in MESSAGES] + [[a, b] for a in MESSAGES for b in MESSAGES]
        if full and not q:
            lists += [[a, b, c] for a in MESSAGES for b in MESSAGES for c in MESSAGES] + [['ab' * 300]]
        if not full:
            lists = [[], [''], ['00'], ['', ''], ['00000000', 'ff01']]
        out = [{'message': m} for m in lists]
    elif kind == 'smart_rollup_execute_outbox_message':
        proofs = ['', '00', 'ff' * 5, '0123456789abcdef' * 40]
        for r in ([1, 3, 4] if full else [3]):
            for c in (COMMITS if full else COMMITS[:2]):
                for p in (proofs if full else proofs[:3]):
                    out.append({'rollup': addr('sr1', r), 'cemented_commitment': c, 'output_proof': p})
    elif kind == 'failing_noop':
        out = [{'arbitrary': s} for s in ['', 'a', 'msg1', 'é', '\x00', 'l' * 256, '6c00']]
    elif kind == 'activate_account':
        for h in range(5):
            for s in ('00' * 20, 'ff' * 20, '0123456789abcdef0123456789abcdef01234567'):
                out.append({'pkh': pkh(0, h), 'secret': s})
        if not full:
            out = [out[0], out[4], out[8], out[14]]
    else:
        raise KeyError(kind)
    return out


def variants(kind: str, tier: str, n=None):
    """Complete contents used inside pairs / triples."""
    own = own_fields(kind, tier, False)
    if kind in MANAGER:
        hd = headers(tier, False)
        out = [{'kind': kind, **hd[(i + j) % len(hd)], **o} for i, o in enumerate(own) for j in ((0, 1) if tier == 'quick' else (0, 1, 2, 3, 4, 5))]
    else:
        out = [{'kind': kind, **o} for o in own]
    return out if n is None else out[:n]


# ----------------------------------------------------------------------------- oracles
def _diff(want, got):
    """first difference between two normalised groups -> (kind, field)"""
    if want['branch'] != got['branch']:
        return 'group', 'branch'
    for i, (a, b) in enumerate(zip(want['contents'], got['contents'])):
        if a.get('kind') != b.get('kind'):
            return a['kind'], 'kind'
        for k in sorted(set(a) | set(b)):
            if a.get(k) != b.get(k):
                return a['kind'], k
    return 'group', 'number of contents'


def judge_one(g):
    """-> (violations, forged bytes or None, reference bytes).  One group, all per-group oracles."""
    from pytezos.operation.forge import forge_operation_group
    kinds = [c['kind'] for c in g['contents']]
    label = kinds[0] if len(kinds) == 1 else 'group of %d' % len(kinds)
    ref = T.encode(g)
    try:
        forged = forge_operation_group(g)
    except Exception as e:  # noqa
        return [(f'{label}: forge raised {type(e).__name__}', f'{e!r}')], None, ref
    if not isinstance(forged, bytes):
        return [(f'{label}: forge did not return bytes', repr(forged)[:200])], None, ref
    want = T.normalise(g)
    try:
        got = T.decode(forged)
    except T.DecodeError as e:
        i, kind, field = getattr(e, 'where', (None, label, 'contents'))
        if e.code == 'reserved-entrypoint-as-named':
            ep = str(e).split(': ', 1)[1]
            d = f'transaction: entrypoint {ep} forged as a named entrypoint (0xff) instead of its reserved tag {T.ENTRYPOINT_TAG[ep]}'
        else:
            d = f'{kind}.{field}: forged bytes are not a canonical encoding ({e.code})'
        return [(d, f'forged={forged.hex()} reference={ref.hex()} error={e}')], forged, ref
    if got != want:
        kind, field = _diff(want, got)
        return [(f'{kind}.{field}: forged bytes decode to a different value',
                 f'forged={forged.hex()} decoded={got} expected={want}')], forged, ref
    if forged != ref and not _rollup_destination(g):
        return [(f'{label}: forged bytes differ from the reference encoding', f'forged={forged.hex()} reference={ref.hex()}')], forged, ref
    return [], forged, ref


def _rollup_destination(g):
    return any(c['kind'] == 'transaction' and c['destination'].startswith('sr1') for c in g['contents'])


def judge(g, cache=None):
    """Per-group oracles; a multi-content group is first judged content by content so that a defect of one
    kind keeps its descriptor inside batches."""
    if len(g['contents']) > 1:
        vs = []
        for c in g['contents']:
            key = (g['branch'], id(c))
            if cache is not None and key in cache:
                v = cache[key]
            else:
                v = judge_one({'branch': g['branch'], 'contents': [c]})[0]
                if cache is not None:
                    cache[key] = v
            for x in v:
                if x[0] not in [y[0] for y in vs]:
                    vs.append(x)
        if vs:
            return vs, _forge_or_none(g), T.encode(g)
    return judge_one(g)


def nontrivial(g) -> bool:
    if len(g['contents']) > 1:
        return True
    for c in g['contents']:
        for k, v in c.items():
            if k in ('parameters', 'delegate', 'proof') and v:
                if not (k == 'parameters' and v == {'entrypoint': 'default', 'value': UNIT}):
                    return True
            if k in ('fee', 'counter', 'gas_limit', 'storage_limit', 'amount', 'balance', 'ticket_amount') and int(v) >= 128:
                return True
    return False


def outcome(g, vs) -> str:
    c = g['contents']
    if len(c) > 1:
        lab = 'pair' if len(c) == 2 else 'triple'
    else:
        lab = c[0]['kind']
        if lab == 'transaction':
            p = T.normalise_content(c[0]).get('parameters')
            ep = 'no-params' if not p else ('reserved-ep' if p['entrypoint'] in T.ENTRYPOINT_TAG else 'named-ep')
            lab += f'/{c[0]["destination"][:3]}/{ep}'
        elif lab in ('origination', 'delegation'):
            lab += '/delegate' if c[0].get('delegate') else '/no-delegate'
        elif lab == 'reveal':
            lab += '/' + c[0]['public_key'][:4] + ('/proof' if c[0].get('proof') else '')
    return lab + (': ok' if not vs else ': ' + vs[0][0].split(': ', 1)[-1][:60])


# ----------------------------------------------------------------------------- enumeration
def _key(d) -> str:
    return json.dumps(d, sort_keys=True)


def _chunks(n_items: int, per_item: int, target: int):
    """split range(n_items) into contiguous chunks of about `target` cases"""
    step = max(1, target // max(1, per_item))
    return [(a, min(n_items, a + step)) for a in range(0, n_items, step)]


def shards(tier, seed):
    """The shards partition the universe: no normalised group is enumerated by two shards (finalize relies on it and
    re-checks it on the slow path)."""
    target = 25000 if tier == 'quick' else 60000
    out = []
    for kind in KINDS:
        if kind in MANAGER:
            n_own_full, n_hd_small = len(own_fields(kind, tier, True)), len(headers(tier, False))
            for a, b in _chunks(n_own_full, n_hd_small, target):
                out.append(('single', kind, 'own', a, b))
            n_hd_full, n_own_small = len(headers(tier, True)), len(own_fields(kind, tier, False))
            for a, b in _chunks(n_hd_full, n_own_small, target):
                out.append(('single', kind, 'hdr', a, b))
        else:
            out.append(('single', kind, 'own', 0, len(own_fields(kind, tier, True))))
    out.append(('alias',))
    for ka in KINDS:
        for kb in KINDS:
            out.append(('pair', ka, kb))
    for ka in KINDS:
        for kb in KINDS:
            out.append(('triple', ka, kb))
    return out


def cases(spec, tier):
    """Deterministic generator of (group, alias) of one shard.  alias=True: an input spelling that normalises to a group
    enumerated elsewhere (default/Unit parameters == no parameters); judged, but left out of the injectivity accounting."""
    mode = spec[0]
    if mode == 'single':
        _, kind, block, a, b = spec
        if kind not in MANAGER:
            for o in own_fields(kind, tier, True)[a:b]:
                yield {'branch': BRANCHES[0], 'contents': [{'kind': kind, **o}]}, False
        elif block == 'own':
            hd = headers(tier, False)
            for o in own_fields(kind, tier, True)[a:b]:
                for h in hd:
                    yield {'branch': BRANCHES[0], 'contents': [{'kind': kind, **h, **o}]}, False
        else:
            own = own_fields(kind, tier, False)
            in_full = {_key(o) for o in own_fields(kind, tier, True)}
            in_small = {_key(h) for h in headers(tier, False)}
            own = [(o, _key(o) in in_full) for o in own]
            for h in headers(tier, True)[a:b]:
                hs = _key(h) in in_small
                for o, dup in own:
                    if not (hs and dup):  # that combination belongs to the 'own' block
                        yield {'branch': BRANCHES[0], 'contents': [{'kind': kind, **h, **o}]}, False
        if a == 0 and block == 'own':  # second branch on the variant set
            for c in variants(kind, tier):
                yield {'branch': BRANCHES[1], 'contents': [c]}, False
    elif mode == 'alias':
        dests = [pkh(c, 1) for c in range(4)] + [addr('KT1', h) for h in (2, 0, 4)] + [addr('sr1', 3)]
        for h in headers(tier, False):
            for a in (NUMS_Q if tier == 'quick' else NUMS_T):
                for d in dests:
                    yield {'branch': BRANCHES[0], 'contents': [{'kind': 'transaction', **h, 'amount': str(a), 'destination': d,
                                                                'parameters': {'entrypoint': 'default', 'value': {'prim': 'Unit'}}}]}, True
    elif mode == 'pair':
        va, vb = variants(spec[1], tier), variants(spec[2], tier)
        for br in BRANCHES:
            for x in va:
                for y in vb:
                    yield {'branch': br, 'contents': [x, y]}, False
    else:
        n = 2 if tier == 'quick' else 5
        va, vb = variants(spec[1], tier, n), variants(spec[2], tier, n)
        for kc in KINDS:
            vc = variants(kc, tier, n)
            for br in (BRANCHES[:1] if tier == 'quick' else BRANCHES):
                for x in va:
                    for y in vb:
                        for z in vc:
                            yield {'branch': br, 'contents': [x, y, z]}, False


INJ = 'two different groups forge to identical bytes'


def run_shard(spec, tier):
    r = Result()
    seen = {}      # h64(forged) -> (h64(reference bytes of the group), the group)
    cache = {}
    g = None
    first = True
    via_group = spec[0] in ('pair', 'alias') or (spec[0] == 'single' and spec[2] == 'hdr')
    for g, alias in cases(spec, tier):
        r.ev()
        vs, forged, ref = judge(g, cache)
        rk = h64(ref)
        if alias:
            r.extra['alias_spellings'] += 1
        else:
            r.extra['distinct_groups'] += 1
            if nontrivial(g):
                r.nt(ref)
        if _rollup_destination(g):
            r.extra['oracle2_not_applied_rollup_destination'] += 1
        if via_group and forged is not None:  # the other observation point: OperationGroup.forge()
            r.extra['also_forged_through_OperationGroup'] += 1
            hx = _group_forge(g)
            if hx != forged.hex():
                vs = vs + [('OperationGroup.forge() differs from forge_operation_group', f'{hx} vs {forged.hex()}')]
        if forged is None:
            if not alias:
                r.extra['distinct_groups_without_forged_bytes'] += 1
        elif not alias:
            r.state(forged)
            first_rk, other = seen.setdefault(h64(forged), (rk, g))
            if first_rk != rk:     # the first group with these bytes is kept: no rescan of the shard per collision
                r.viol(INJ, {'injectivity': [other, g]}, f'forged={forged.hex()}')
                r.out('injectivity: collision')
        r.out(outcome(g, vs))
        for d, detail in vs:
            r.viol(d, g, detail)
        if first:
            r.sample(g)
            first = False
    if g is not None:
        r.sample(g)
    return r


def _forge_or_none(g):
    from pytezos.operation.forge import forge_operation_group
    try:
        f = forge_operation_group(g)
        return f if isinstance(f, bytes) else None
    except Exception:  # noqa
        return None


_CTX = []


def _group_forge(g):
    from pytezos.context.impl import ExecutionContext
    from pytezos.operation.group import OperationGroup
    if not _CTX:
        _CTX.append(ExecutionContext())
    try:
        return OperationGroup(context=_CTX[0], contents=g['contents'], branch=g['branch']).forge()
    except Exception as e:  # noqa
        return f'{type(e).__name__}: {e}'


def finalize(res, tier):
    """Global injectivity.  The shards partition the distinct groups, so the number of distinct forged byte strings
    (union over shards) must equal the number of groups that were forged.  On a mismatch the universe is re-enumerated
    serially to produce the colliding pair (or to expose an enumeration duplicate, which is a harness error)."""
    n_forged = len(res.state_hashes)
    n_groups = res.extra['distinct_groups'] - res.extra['distinct_groups_without_forged_bytes']
    res.extra['distinct_forged_byte_strings'] = n_forged
    if n_forged == n_groups:
        return
    by_ref, by_forged = {}, {}
    for spec in shards(tier, 0):
        for g, alias in cases(spec, tier):
            if alias:
                continue
            ref = T.encode(g)
            if ref in by_ref:
                raise RuntimeError(f'harness error: group enumerated twice: {g} in {spec} and {by_ref[ref]}')
            by_ref[ref] = spec
            f = _forge_or_none(g)
            if f is None:
                continue
            if f in by_forged:
                res.viol(INJ, {'injectivity': [by_forged[f], g]}, f'forged={f.hex()}')
                if res.violations[INJ]['count'] >= 3:
                    return
            else:
                by_forged[f] = g
    if INJ not in res.violations:
        raise RuntimeError(f'harness error: {n_forged} distinct forged strings for {n_groups} groups but no colliding pair found')


def replay(case):
    if 'injectivity' in case:
        a, b = case['injectivity']
        fa, fb = _forge_or_none(a), _forge_or_none(b)
        if fa is not None and fa == fb and T.encode(a) != T.encode(b):
            return [(INJ, f'forged={fa.hex()}')]
        return []
    return judge(case)[0]


def observe(case):
    if 'injectivity' in case:
        return [(_forge_or_none(x) or b'').hex() for x in case['injectivity']]
    f = _forge_or_none(case)
    return f.hex() if f is not None else None
