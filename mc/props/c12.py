"""C12 — Python-object conversion of contract data round-trips.

Small-scope exhaustive input enumeration in three families, all against the real code:

 S (structure / naming): EVERY binary tree shape with n leaves, EVERY assignment of {pair, or} to the inner nodes, EVERY
   placement of annotations from {none, %a, %b, :a, %<inferred-looking name>} (repeats allowed, so duplicates arise) on the
   nodes, three leaf modes (all int / all unit = enums / mixed scalar types), every value (one distinct value per leaf,
   products for pairs, every branch for unions).
 L (leaf variety): every pair / or of 2 (thorough: 3) leaves drawn from a palette of 21 leaf types (scalars, options,
   nested option, list, set, maps with pair and union keys, big_map literal and pointer, timestamp, bytes, address, lambda,
   comb pair, enum), with and without field names, every combination of 1-3 values per leaf; plus option / list / map
   wrappers around them.
 L also has the shard LO: a PRESENT optional around every palette value (so around every empty / false / zero payload), bare and
   as a pair field, union branch, list element and map value.
 K (collection keys): map / set / big_map literal whose key is one component or a pair (thorough: triple) of components from an
   alphabet of 13 comparable types: scalars, addresses of three kinds (tz1 / tz2 / KT1), option, unions, an unnamed sub-pair, a
   %field-named and a :type-named sub-pair with named fields, an option of a named pair; components unnamed and %named; values =
   all keys (ascending by construction: rows list their values in Michelson order), none, the greatest alone, the two extremes.
   Several rows have Python objects whose Python order is not the Michelson order (addresses, union branch names, None against
   numbers), others are only hashable in their comparable rendering.
 E (entrypoint helper): every `or` tree with n leaves, every duplicate-free placement of {none, %a, %b} on all nodes, every
   listed entrypoint x argument through ContractEntrypoint.decode / encode, the call proxy ep(obj) / ep(*obj) / ep(**obj) / ep()
   and ParameterSection.to/from_python_object; 8 leaf types in three rotations, each with a truthy and a FALSY whole argument
   (0, False, '', [], {}, Some '' ...).
 H (process history, on every shard of S, L and E): a shard is a sequence of conversions in one process.  Every item (a type
   with its values / a parameter type with its calls) is converted (1) in shard order, (2) in the OPPOSITE order by the lane's
   companion process (forked from the worker before its first conversion; it sees the lane's shards in the same sequence, each
   one back to front), (3) once more after the whole shard (A-B-A).  The three objects of every input must be the same text: the Python object is a function of the type and the value, not of what the
   process converted before (names are "stable for a given type").  Shards hold all annotation placements of one shape, so
   types that differ only in %field or only in :type names sit in the same sequence.

Oracles (the statement; no hand-written expectation):
   T.from_python_object(v.to_python_object()) == v                                   (equality = readable Micheline)
   the same for the EQUAL object whose dicts list their entries in the opposite order (dict equality ignores order)
   ContractData.encode(decode(m)) == m and decode(encode(o)) == o                      (readable and optimized)
   names: no two fields of one pair/union share a name; same names for every value and for a re-built type
   ContractEntrypoint: decode(a, e) = obj; encoding obj again (through the root entrypoint, and through the entrypoint that
   obj names when that is a listed one) denotes the same full parameter; decoding that gives obj again; so does the
   parameter built by calling the entrypoint proxy with obj in every call form that passes obj;
   ParameterSection.from_python_object(p.to_python_object()) == p.
   H: object(type, value) identical in shard order, in reverse order (companion process), and again after the shard.
"""
from __future__ import annotations

import itertools
import json
import re

from mc.engine.report import Result
from mc.ref import entrypoints as ref

ID = 'C12'
LEVEL = 'exploration'
RULE = ('S: all tree shapes x {pair,or} per inner node x annotation placements x leaf modes x all values; L: all 2-(3-)leaf '
        'pairs/unions over a 21-type leaf palette x value combinations (+ wrappers); K: map/set/big_map x every 1-2-(3-)component key '
        'over 13 comparable component types x {unnamed, %named} x key subsets; E: all or-trees x annotation placements x '
        '(entrypoint, argument) x {decode, encode, call forms}; LO: present optional around every palette value in 6 containers; H: every shard also converted in the '
        'opposite order by a companion process and once more afterwards, objects compared input by input.  '
        'non-trivial = distinct (type, value) whose Python object uses an inferred name (prim_N), '
        'nests a composite inside a composite (a composite collection key counts), or goes through a contract-level helper with an unannotated union leaf')
BOUND = {
    'quick': 'S: n<=3 leaves full alphabet on all nodes (int leaves; unit/mixed leaves with {none,%a,%collider}), n=4 alphabet {none,%a,%int_1} on non-root nodes; '
             'L: 2 leaves x 21 leaf types x 4 naming schemes (none, %x %y, %x %x, :x :y) x <=16 value combinations, LO: option around each of the 21 '
             'palette types x every value x 6 containers; K: 13 + 13x13x2 key types x 3 containers (+ a record of map and set) x 4 key subsets; '
             'E: n<=3 leaves, names {none,%a,%b}, 3 rotations of 8 leaf types x 2-3 arguments, <=4 call forms per route; H: every shard in both orders + again',
    'thorough': 'S: n<=3 full alphabet x 3 leaf modes, n=4 full alphabet (non-root nodes), n=5 alphabet {none,%a,%int_1}; L: 3 leaves over the palette, wrappers '
                'option/list/map/set, LO as quick; K: as quick + 13^3 three-component keys (5 of the <=27 keys); E: n<=4 leaves, 3 leaf rotations, call forms; H: every shard in both orders + again',
}
ASSUMPTIONS = ['equality of values = equality of their readable Micheline rendering (lazy_diff=None, as ContractData does)',
               'Python objects are compared with ==',
               'entrypoint listing of the E family comes from mc/ref/entrypoints.py (validated by its selftest)',
               'H compares repr() of the Python objects; worker and companion see the shards of the lane in the same sequence, so mainly '
               'interference between conversions of the same shard (all annotation placements of one shape / one palette row) is judged; '
               'without fork() the order comparison is counted as no verdict']
LEVEL_TEXT = ('exhaustive over every pair/union shape, kind assignment and annotation placement up to the leaf bound, and over '
              'every pair of leaf types from the palette, and over every one- and two-component collection key from the key alphabet; each value is converted to its Python object and back, and through '
              'the contract-level helpers; every shard is additionally converted in the opposite order by a second process and '
              'once more afterwards, so an object that depends on earlier conversions in the process is seen; nothing is sampled')

TZ1 = 'tz1VSUr8wwNhLAzempoch5d6hLRiTh8Cjcjb'

# ------------------------------------------------------------------------------------------------ descriptors
D_COLL = 'a user annotation equal to an inferred field name (such as %int_1) gives two fields of one type the same name'
D_OPT = 'nested option: Some None and None both convert to Python None'
D_TOPY_ERR = 'to_python_object raises'
D_BACK_ERR = 'from_python_object rejects the object produced by to_python_object'
D_BACK_DIFF = 'value -> Python object -> value changes the value'
D_UNSTABLE = 'field names differ between values or between two builds of one type'
D_CD_ERR = 'ContractData.decode/encode raises'
D_CD_ENC = 'ContractData.encode(decode(m)) differs from m'
D_CD_DEC = 'ContractData.decode(encode(o)) differs from o'
D_CE_TOPARAM = ('ContractEntrypoint.encode raises when the selected union leaf is not annotated '
                '(ParameterSection.to_parameters)')
D_CE_ERR = 'ContractEntrypoint.decode/encode raises'
D_CE_DIFF = 'ContractEntrypoint.encode of a decoded object denotes a different parameter'
D_CE_DEC = 'ContractEntrypoint.decode(encode(obj)) differs from obj'
D_PS_INFERRED = ('ParameterSection.from_python_object rejects the inferred name of an unannotated union leaf '
                 'that to_python_object produced')
D_PS_ERR = 'ParameterSection.from_python_object rejects the object produced by to_python_object'
D_PS_DIFF = 'parameter -> Python object -> parameter changes the value'
D_CALL_ERR = 'ContractEntrypoint call proxy ep(obj) raises on the object that decode produced'
D_CALL_DIFF = 'ContractEntrypoint call proxy ep(obj) builds a parameter that does not denote the decoded value'
D_ORDER = ('from_python_object depends on the insertion order of a dict: an equal Python object (entries listed in the opposite '
           'order) converts to a different value or is rejected')
D_HISTORY = ('the Python object of a value depends on which other types were converted earlier in the same process '
             '(two processes converting one shard in opposite orders disagree)')
D_DRIFT = 'the Python object of a value changes when its type is built and the value converted again later in the same process'


def err(e):
    return f'{type(e).__name__}{e.args!r}'[:200]


# ------------------------------------------------------------------------------------------------ Micheline helpers
def Pair(a, b):
    return {'prim': 'Pair', 'args': [a, b]}


def Left(a):
    return {'prim': 'Left', 'args': [a]}


def Right(a):
    return {'prim': 'Right', 'args': [a]}


def Some(a):
    return {'prim': 'Some', 'args': [a]}


NONE = {'prim': 'None'}
UNIT = {'prim': 'Unit'}


def I(n):
    return {'int': str(n)}


def Str(s):
    return {'string': s}


def Elt(k, v):
    return {'prim': 'Elt', 'args': [k, v]}


def ty(prim, *args, annots=None):
    d = {'prim': prim}
    if args:
        d['args'] = list(args)
    if annots:
        d['annots'] = list(annots)
    return d


def annotated(t, *annots):
    d = dict(t)
    if annots:
        d['annots'] = list(annots)
    return d


def has_some_none(v):
    if isinstance(v, list):
        return any(has_some_none(x) for x in v)
    if isinstance(v, dict):
        if v.get('prim') == 'Some' and v['args'][0] == NONE:
            return True
        return any(has_some_none(x) for x in v.get('args', []))
    return False


def has_nested_option(t):
    if t.get('prim') == 'option' and t['args'][0].get('prim') == 'option':
        return True
    return any(has_nested_option(a) for a in t.get('args', []) if isinstance(a, dict))


# ------------------------------------------------------------------------------------------------ family S
def shapes(n):
    if n == 1:
        return ['L']
    out = []
    for k in range(1, n):
        for l in shapes(k):
            for r in shapes(n - k):
                out.append((l, r))
    return out


def count_nodes(shape):
    return 1 if shape == 'L' else 1 + count_nodes(shape[0]) + count_nodes(shape[1])


MIXED = ['int', 'string', 'unit', 'nat', 'bytes']
COLLIDER = {'int': '%int_1', 'unit': '%unit_1', 'mixed': '%string_1'}


def s_leaf(mode, i):
    if mode == 'int':
        return ty('int'), I(i + 1)
    if mode == 'unit':
        return ty('unit'), UNIT
    p = MIXED[i % len(MIXED)]
    val = {'int': I(-(i + 1)), 'string': Str('abcde'[i]), 'unit': UNIT, 'nat': I(i + 1), 'bytes': {'bytes': '0%d' % i}}[p]
    return ty(p), val


def s_alphabet(mode, small):
    c = COLLIDER[mode]
    return [None, '%a', c] if small else [None, '%a', '%b', ':a', c]


def build_S(shape, kinds, annots, mode):
    """(type expression, [values]) for a shape; kinds = pair/or per inner node, annots per node, both pre-order."""
    it_k, it_a, leaf_no = iter(kinds), iter(annots), itertools.count()

    def go(s):
        ann = next(it_a)
        if s == 'L':
            node, val = s_leaf(mode, next(leaf_no))
            vals = [val]
        else:
            k = next(it_k)
            l, lv = go(s[0])
            r, rv = go(s[1])
            node = {'prim': k, 'args': [l, r]}
            vals = [Pair(a, b) for a in lv for b in rv] if k == 'pair' else [Left(a) for a in lv] + [Right(b) for b in rv]
        if ann:
            node['annots'] = [ann]
        return node, vals

    return go(shape)


def s_shards(tier):
    out = []
    plans = [(2, 'full', True, m) for m in COLLIDER] + [(3, 'full', True, 'int')]
    if tier == 'quick':
        plans += [(3, 'small', True, 'unit'), (3, 'small', True, 'mixed'), (4, 'small', False, 'int')]
    else:
        plans += [(3, 'full', True, 'unit'), (3, 'full', True, 'mixed'),
                  (4, 'full', False, 'int'), (4, 'small', False, 'unit'), (4, 'small', False, 'mixed'),
                  (5, 'small', False, 'int')]
    for n, alpha, with_root, mode in plans:
        for si in range(len(shapes(n))):
            for kinds in itertools.product(['pair', 'or'], repeat=n - 1):
                out.append(('S', n, si, list(kinds), alpha, with_root, mode))
    return out


def s_types(spec):
    _, n, si, kinds, alpha, with_root, mode = spec
    shape = shapes(n)[si]
    k = count_nodes(shape)
    letters = s_alphabet(mode, alpha == 'small')
    if with_root:
        space = itertools.product(letters, repeat=k)
    else:
        space = ((None,) + rest for rest in itertools.product(letters, repeat=k - 1))
    for annots in space:
        yield build_S(shape, kinds, annots, mode)


# ------------------------------------------------------------------------------------------------ family L
PAL = [
    (ty('int'), [I(0), I(-1)]),
    (ty('string'), [Str(''), Str('a')]),
    (ty('unit'), [UNIT]),
    (ty('bool'), [{'prim': 'True'}, {'prim': 'False'}]),
    (ty('option', ty('int')), [NONE, Some(I(0))]),
    (ty('option', ty('option', ty('int'))), [NONE, Some(NONE), Some(Some(I(1)))]),
    (ty('option', ty('unit')), [NONE, Some(UNIT)]),
    (ty('list', ty('int')), [[], [I(2), I(1)]]),
    (ty('set', ty('int')), [[], [I(1), I(2)]]),
    (ty('map', ty('pair', ty('int'), ty('string')), ty('int')),
     [[], [Elt(Pair(I(1), Str('a')), I(1)), Elt(Pair(I(2), Str('b')), I(2))]]),
    (ty('map', ty('or', ty('int', annots=['%l']), ty('string')), ty('option', ty('int'))),
     [[Elt(Left(I(1)), NONE), Elt(Right(Str('a')), Some(I(1)))], []]),
    (ty('big_map', ty('string'), ty('int')), [[Elt(Str('a'), I(1))], I(7), I(0), []]),   # ids 7 and 0 (falsy), literal, empty literal
    (ty('big_map', ty('pair', ty('nat'), ty('bytes')), ty('pair', ty('int', annots=['%v']), ty('string'))),
     [[Elt(Pair(I(0), {'bytes': '00'}), Pair(I(1), Str('x')))]]),
    (ty('timestamp'), [Str('1970-01-01T00:00:00Z'), Str('2020-02-29T23:59:59Z')]),
    (ty('bytes'), [{'bytes': ''}, {'bytes': '00ff'}]),
    (ty('address'), [Str(TZ1)]),
    (ty('mutez'), [I(0)]),
    (ty('lambda', ty('unit'), ty('unit')), [[]]),
    (ty('pair', ty('int'), ty('string'), ty('nat')), [Pair(I(1), Pair(Str('x'), I(2)))]),
    (ty('or', ty('unit'), ty('unit')), [Left(UNIT), Right(UNIT)]),
    (ty('list', ty('or', ty('int'), ty('pair', ty('int'), ty('int')))), [[Left(I(1)), Right(Pair(I(1), I(2)))]]),
]


def l_compose(kind, leaves, names):
    """Right-nested pair/or of the given palette indices; names = field annotations or None."""
    nodes = []
    for j, i in enumerate(leaves):
        t = PAL[i][0]
        nodes.append(annotated(t, *((t.get('annots') or []) + ([names[j]] if names else []))))
    vals = [PAL[i][1] for i in leaves]

    def go(ns, vs, ks):
        if len(ns) == 1:
            return ns[0], vs[0]
        rt, rv = go(ns[1:], vs[1:], ks[1:])
        k = ks[0]
        node = {'prim': k, 'args': [ns[0], rt]}
        if k == 'pair':
            return node, [Pair(a, b) for a in vs[0] for b in rv]
        return node, [Left(a) for a in vs[0]] + [Right(b) for b in rv]

    return go(nodes, vals, kind)


def l_shards(tier):
    out = [('L1',), ('LO',)] + [('L2', i) for i in range(len(PAL))]
    if tier == 'thorough':
        out += [('L3', i, j) for i in range(len(PAL)) for j in range(len(PAL))]
        out += [('LW', i) for i in range(len(PAL))]
    return out


def l_types(spec):
    if spec[0] == 'L1':
        for t, vals in PAL:
            yield t, vals
            yield annotated(t, ':t', '%f'), vals
    elif spec[0] == 'L2':
        i = spec[1]
        for j in range(len(PAL)):
            for kind in ('pair', 'or'):
                for names in (None, ['%x', '%y'], ['%x', '%x'], [':x', ':y']):
                    yield l_compose([kind], [i, j], names)
    elif spec[0] == 'LO':
        # a PRESENT optional whose payload is every palette value (empty string / bytes / list / set / map, False, 0, Unit ...),
        # bare and inside each kind of container that delegates to the option
        for t, vals in PAL:
            ovals = [NONE] + [Some(v) for v in vals]
            yield ty('option', t), ovals
            yield ty('pair', ty('option', t, annots=['%o']), ty('int', annots=['%n'])), [Pair(v, I(0)) for v in ovals]
            yield ty('pair', ty('option', t), ty('int')), [Pair(v, I(0)) for v in ovals]
            yield ty('or', ty('option', t, annots=['%o']), ty('unit', annots=['%u'])), [Left(v) for v in ovals] + [Right(UNIT)]
            if not _has_big_map(t):
                yield ty('list', ty('option', t)), [ovals, ovals[1:]]
                yield ty('map', ty('string'), ty('option', t)), [[Elt(Str(''), v)] for v in ovals] + \
                    [[Elt(Str(''), ovals[-1]), Elt(Str('k'), ovals[1])]]
    elif spec[0] == 'L3':
        i, j = spec[1], spec[2]
        for k in range(len(PAL)):
            for kinds in itertools.product(('pair', 'or'), repeat=2):
                for names in (None, ['%x', '%y', '%x']):
                    yield l_compose(list(kinds), [i, j, k], names)
    elif spec[0] == 'LW':
        i = spec[1]
        for j in range(len(PAL)):
            for kind in ('pair', 'or'):
                for names in (None, ['%x', '%y']):
                    t, vals = l_compose([kind], [i, j], names)
                    vals = vals[:4]
                    yield ty('option', t), [NONE] + [Some(v) for v in vals]
                    if not _has_big_map(t):
                        yield ty('list', t), [[], vals[:2]]
                        yield ty('map', ty('string'), t), [[Elt(Str('k'), v)] for v in vals[:2]]
                        yield ty('pair', ty('int', annots=['%n']), ty('option', t, annots=['%o'])), \
                            [Pair(I(1), Some(v)) for v in vals[:2]] + [Pair(I(1), NONE)]


# ------------------------------------------------------------------------------------------------ family K (collection keys)
TZ2 = 'tz28YZoayJjVz2bRgGeVjxE8NonMiJ3r2Wdu'
KT1 = 'KT1BEqzn5Wx8uJrZNvuS9DVHmLvG9td3fDLi'


def _xy(*annots):
    return ty('pair', ty('int', annots=['%x']), ty('int', annots=['%y']), annots=list(annots) or None)


_XY_VALS = [Pair(I(-1), I(5)), Pair(I(0), I(0)), Pair(I(0), I(1))]

# comparable component types, each with values in ASCENDING MICHELSON ORDER (so products of them are ascending pair keys and no
# reference ordering is needed).  The Python objects of several rows order differently in Python than the values do in
# Michelson (addresses of mixed kinds, union branch names, None against numbers), others are unhashable unless rendered in
# their comparable form (named sub-pairs, unions, options of them).
KEYS = [
    (ty('nat'), [I(0), I(1)]),
    (ty('int'), [I(-10), I(-9), I(3)]),
    (ty('string'), [Str(''), Str('B'), Str('a')]),
    (ty('bytes'), [{'bytes': ''}, {'bytes': '00'}, {'bytes': 'ff'}]),
    (ty('bool'), [{'prim': 'False'}, {'prim': 'True'}]),
    (ty('address'), [Str(TZ1), Str(TZ2), Str(KT1)]),                      # implicit (by curve) before originated; 'K' < 't' as text
    (ty('option', ty('nat')), [NONE, Some(I(0)), Some(I(2))]),
    (ty('or', ty('nat', annots=['%z']), ty('string', annots=['%b'])), [Left(I(0)), Left(I(1)), Right(Str('a'))]),
    (ty('or', ty('unit', annots=['%tez']), ty('address', annots=['%fa'])), [Left(UNIT), Right(Str(TZ1)), Right(Str(KT1))]),
    (ty('pair', ty('nat'), ty('string')), [Pair(I(1), Str('a')), Pair(I(1), Str('b')), Pair(I(2), Str('a'))]),   # flattened into the key
    (_xy('%pos'), _XY_VALS),                                               # field-named sub-pair with named fields
    (_xy(':pos'), _XY_VALS),                                               # type-named sub-pair with named fields
    (ty('option', _xy()), [NONE, Some(Pair(I(0), I(0))), Some(Pair(I(2), I(3)))]),
]


def k_key_types(comps, named):
    """Right comb of the components as one key type + its ascending values."""
    nodes = []
    for n, i in enumerate(comps):
        t = KEYS[i][0]
        ann = list(t.get('annots') or [])
        if len(comps) == 1:
            ann = [a for a in ann if not a.startswith('%')]      # the argument of map / set cannot carry a field name
        elif named and not any(a.startswith('%') for a in ann):
            ann.append('%' + 'pqr'[n])
        node = {k: v for k, v in t.items() if k != 'annots'}
        if ann:
            node['annots'] = ann
        nodes.append(node)
    vals = [KEYS[i][1] for i in comps]

    def go(ns, vs):
        if len(ns) == 1:
            return ns[0], vs[0]
        rt, rv = go(ns[1:], vs[1:])
        return ty('pair', ns[0], rt), [Pair(a, b) for a in vs[0] for b in rv]

    return go(nodes, vals)


def k_containers(kt, keys):
    """map / set / big_map literal with the key type: all keys, none, the greatest one alone, the two extremes."""
    subsets = [keys, [], keys[-1:]] + ([[keys[0], keys[-1]]] if len(keys) > 2 else [])
    yield ty('map', kt, ty('int')), [[Elt(k, I(n)) for n, k in enumerate(ks)] for ks in subsets]
    yield ty('set', kt), [list(ks) for ks in subsets]
    yield ty('big_map', kt, ty('string')), [[Elt(k, Str('v')) for k in ks] for ks in subsets[:3] if ks] + [[]]


def k_shards(tier):
    out = [('K', 2, i) for i in range(len(KEYS))]
    if tier == 'thorough':
        out += [('K', 3, i, j) for i in range(len(KEYS)) for j in range(len(KEYS))]
    return out


def k_types(spec):
    if spec[1] == 2:
        i = spec[2]
        yield from k_containers(*k_key_types([i], False))
        # a record holding the collection: the key conversion is reached through the named field
        kt, keys = k_key_types([i], False)
        yield ty('pair', ty('map', kt, ty('int'), annots=['%m']), ty('set', kt, annots=['%s'])), \
            [Pair([Elt(k, I(0)) for k in keys], list(keys)), Pair([], [])]
        for j in range(len(KEYS)):
            for named in (False, True):
                yield from k_containers(*k_key_types([i, j], named))
    else:
        i, j = spec[2], spec[3]
        for k in range(len(KEYS)):
            kt, keys = k_key_types([i, j, k], False)
            yield from k_containers(kt, keys[:2] + keys[len(keys) // 2:len(keys) // 2 + 1] + keys[-2:])


def _has_big_map(t):
    return t.get('prim') == 'big_map' or any(_has_big_map(a) for a in t.get('args', []) if isinstance(a, dict))


# ------------------------------------------------------------------------------------------------ checks on a bare type
def M(t):
    from pytezos.michelson.types import MichelsonType
    return MichelsonType.match(t)


def mich(v, mode='readable'):
    return v.to_micheline_value(mode=mode, lazy_diff=None)


def shared_names(T):
    """Names that the layout of some pair/union inside T gives to two different fields."""
    from pytezos.michelson.types import OrType, PairType
    from pytezos.michelson.types.base import MichelsonType
    out = []

    def walk(c, flattened):
        if not flattened and issubclass(c, (PairType, OrType)):
            p2k, _, _ = c.get_type_layout(infer_names=issubclass(c, OrType))
            if isinstance(p2k, dict):
                names = list(p2k.values())
                out.extend(sorted({x for x in names if names.count(x) > 1}))
        for a in getattr(c, 'args', []):
            if isinstance(a, type) and issubclass(a, MichelsonType):
                flat = (issubclass(c, OrType) and issubclass(a, OrType)) or \
                       (issubclass(c, PairType) and issubclass(a, PairType) and not (a.field_name or a.type_name))
                walk(a, flat)

    walk(T, False)
    return out


INFERRED = re.compile(r'^[a-z_0-9]+_\d+$')


def obj_profile(o, depth=0):
    """(uses an inferred name, nests composite in composite, short shape label)"""
    inferred = nested = False
    if isinstance(o, dict):
        for k, v in o.items():
            if isinstance(k, str) and INFERRED.match(k):
                inferred = True
            if isinstance(k, tuple):
                nested = True                      # composite collection key
            i2, n2, _ = obj_profile(v, depth + 1)
            inferred |= i2
            nested |= n2 or isinstance(v, (dict, tuple, list))
        label = f'dict{len(o)}'
    elif isinstance(o, (tuple, list)):
        for v in o:
            i2, n2, _ = obj_profile(v, depth + 1)
            inferred |= i2
            nested |= n2 or isinstance(v, (dict, tuple, list))
        label = f'{type(o).__name__}{len(o)}'
    elif isinstance(o, str) and INFERRED.match(o):
        inferred, label = True, 'enum'
    else:
        label = type(o).__name__
    return inferred, nested, label


def reversed_dicts(o):
    """A copy of the object that is == to it, every dict with >= 2 entries listed back to front; None if there is no such dict."""
    changed = False

    def go(x):
        nonlocal changed
        if isinstance(x, dict):
            items = [(k, go(v)) for k, v in x.items()]
            if len(items) > 1:
                changed = True
                items.reverse()
            return dict(items)
        if isinstance(x, (list, tuple)):
            return type(x)(go(v) for v in x)
        return x

    r = go(o)
    return r if changed else None


def classify(T, t, value, default):
    if shared_names(T):
        return D_COLL
    if has_nested_option(t) and has_some_none(value):
        return D_OPT
    return default


def check_type(T, t):
    """Type-level: names unique."""
    dup = shared_names(T)
    if dup:
        return [(D_COLL, f'type={t}: name(s) {dup} used for two fields')]
    return []


def check_value(T, t, value, cd=None, second_build=True):
    """One value through object conversion, ContractData helpers and the stability checks.
    Returns (violations, outcome label, python object or None)."""
    out = []
    try:
        v = T.from_micheline_value(value)
        m = mich(v)
    except Exception as e:
        return [('from_micheline_value rejects a well-typed value', f'type={t} value={value} {err(e)}')], 'value rejected', None
    try:
        o = v.to_python_object(lazy_diff=None)
    except Exception as e:
        return [(classify(T, t, value, D_TOPY_ERR), f'type={t} value={value} {err(e)}')], 'to_python_object raises', None
    inferred, nested, label = obj_profile(o)
    label = f'{t["prim"]} -> {label}{"+inferred-name" if inferred else ""}{"+nested" if nested else ""}'
    try:
        back = mich(T.from_python_object(o))
        if back != m:
            out.append((classify(T, t, value, D_BACK_DIFF), f'type={t} value={value} object={o!r} back={back}'))
            label += ' back:differs'
    except Exception as e:
        out.append((classify(T, t, value, D_BACK_ERR), f'type={t} value={value} object={o!r} {err(e)}'))
        label += ' back:raises'
    # an EQUAL object: every dict inside it with its entries in the opposite insertion order
    o_rev = reversed_dicts(o)
    if o_rev is not None:
        try:
            back = mich(T.from_python_object(o_rev))
            if back != m and not out:
                out.append((classify(T, t, value, D_ORDER), f'type={t} value={value} object={o_rev!r} back={back}'))
                label += ' reordered:differs'
        except Exception as e:
            if not out:
                out.append((classify(T, t, value, D_ORDER), f'type={t} value={value} object={o_rev!r} {err(e)}'))
                label += ' reordered:raises'
    # stability: a second build of the same type expression names the fields identically (inside a shard this is the job of
    # judge_drift, which builds the type again after the whole shard)
    if second_build:
        try:
            o2 = M(json.loads(json.dumps(t))).from_micheline_value(value).to_python_object(lazy_diff=None)
            if o2 != o:
                out.append((D_UNSTABLE, f'type={t} value={value} first={o!r} second={o2!r}'))
        except Exception as e:
            out.append((D_UNSTABLE, f'type={t} value={value} second build: {err(e)}'))
    if cd is not None:
        for mode in ('readable', 'optimized'):
            try:
                mm = mich(v, mode)
                o3 = cd.decode(mm)
                if o3 != o:
                    out.append((classify(T, t, value, D_CD_DEC), f'type={t} m={mm} decode={o3!r} to_python_object={o!r}'))
                m2 = cd.encode(o3, mode=mode)
                if m2 != mm:
                    out.append((classify(T, t, value, D_CD_ENC), f'type={t} mode={mode} m={mm} decode={o3!r} encode={m2}'))
                    label += f' cd-{mode}:differs'
                    continue
                o4 = cd.decode(m2)
                if o4 != o3:
                    out.append((classify(T, t, value, D_CD_DEC), f'type={t} mode={mode} o={o3!r} decode(encode(o))={o4!r}'))
            except Exception as e:
                out.append((classify(T, t, value, D_CD_ERR), f'type={t} value={value} mode={mode} object={o!r} {err(e)}'))
                label += f' cd-{mode}:raises'
    return out, label, o


def make_cd(T, t, value):
    from pytezos.context.impl import ExecutionContext
    from pytezos.contract.data import ContractData
    return ContractData(ExecutionContext(), T.from_micheline_value(value))


def run_bare_type(r, fam, t, vals):
    """All checks of one storage-like type; returns the last case."""
    tkey = json.dumps(t, sort_keys=True)
    case = {'fam': fam, 'type': t}
    try:
        T = M(t)
    except Exception as e:
        r.ev()
        r.out('type rejected')
        r.viol('MichelsonType.match rejects a well-formed type', case, f'type={t} {err(e)}')
        return case, None
    texts = []
    r.ev()
    for d, detail in check_type(T, t):
        r.viol(d, case, detail)
    try:
        cd = make_cd(T, t, vals[0])
    except Exception as e:
        cd = None
        r.no_verdict += 1
        r.out('ContractData cannot be built (typedef generation): helpers not judged for this type')
        r.extra['contractdata_unbuildable'] += 1
    keysets = set()
    names_by_branch = {}
    for value in vals:
        case = {'fam': fam, 'type': t, 'value': value}
        r.ev()
        vs, label, o = check_value(T, t, value, cd, second_build=False)
        r.out(label)
        for d, detail in vs:
            r.viol(d, case, detail)
        texts.append(repr(o) if ' -> ' in label else None)
        if o is not None:
            inferred, nested, _ = obj_profile(o)
            if inferred or nested:
                r.nt((tkey, json.dumps(value, sort_keys=True)))
            if t['prim'] == 'pair' and isinstance(o, dict):
                keysets.add(tuple(o))
            if t['prim'] == 'or':
                name = o if isinstance(o, str) else next(iter(o)) if isinstance(o, dict) and len(o) == 1 else None
                branch = ref.value_path(_or_skeleton(t), value)
                names_by_branch.setdefault(name, set()).add(branch)
    if len(keysets) > 1:
        r.viol(D_UNSTABLE, {'fam': fam, 'type': t}, f'type={t} key sets {sorted(keysets)}')
    for name, branches in names_by_branch.items():
        if len(branches) > 1 and not shared_names(T):
            r.viol(D_UNSTABLE, {'fam': fam, 'type': t}, f'type={t} name {name!r} used for union branches {sorted(branches)}')
    return case, (None if None in texts else texts)


def _or_skeleton(t):
    return t


# ------------------------------------------------------------------------------------------------ family E
E_LEAVES = [
    (ty('int'), [I(5), I(0)]),                                             # a truthy and a FALSY whole argument
    (ty('pair', ty('int', annots=['%x']), ty('string')), [Pair(I(1), Str('s')), Pair(I(0), Str(''))]),
    (ty('unit'), [UNIT]),
    (ty('option', ty('string')), [NONE, Some(Str('s')), Some(Str(''))]),   # absent, present, present with an empty payload
    (ty('bool'), [{'prim': 'False'}, {'prim': 'True'}]),
    (ty('list', ty('string')), [[], [Str('a')]]),
    (ty('map', ty('string'), ty('nat')), [[], [Elt(Str('k'), I(0))]]),
    (ty('string'), [Str(''), Str('s')]),
]
E_ROTATIONS = (0, 3, 6)      # leaf i of a tree has type E_LEAVES[(first + i) % 8]: every leaf type comes first in some rotation or n>=2
E_NAMES = [None, 'a', 'b']


def e_build(shape, annots, all_unit=False, first=0):
    it, leaf_no = iter(annots), itertools.count(first)

    def go(s):
        name = next(it)
        if s == 'L':
            i = next(leaf_no)
            node = ty('unit') if all_unit else json.loads(json.dumps(E_LEAVES[i % len(E_LEAVES)][0]))
        else:
            node = {'prim': 'or', 'args': [go(s[0]), go(s[1])]}
        if name is not None:
            node['annots'] = ['%' + name]
        return node

    return go(shape)


def e_values(node):
    if node.get('prim') == 'or':
        return [Left(v) for v in e_values(node['args'][0])] + [Right(v) for v in e_values(node['args'][1])]
    bare = ref.strip_field_annot(node)
    for t, vals in E_LEAVES:
        if t == bare:
            return vals
    raise AssertionError(node)


def e_annotations(k):
    def go(i, used):
        if i == k:
            yield ()
            return
        for nm in E_NAMES:
            if nm is not None and nm in used:
                continue
            for rest in go(i + 1, used | ({nm} if nm else set())):
                yield (nm,) + rest
    return go(0, set())


def e_shards(tier):
    nmax = 3 if tier == 'quick' else 4
    return [('E', n, si) for n in range(1, nmax + 1) for si in range(len(shapes(n)))]


def e_types(spec):
    _, n, si = spec
    shape = shapes(n)[si]
    for annots in e_annotations(count_nodes(shape)):
        yield e_build(shape, annots)
        if n >= 2 and annots[0] is None:
            yield e_build(shape, annots, all_unit=True)
        if annots[0] is None:
            for first in E_ROTATIONS[1:]:               # leaf types rotated: option / bool / list first, then map / string / int
                yield e_build(shape, annots, first=first)


def e_setup(t):
    from pytezos.context.impl import ExecutionContext
    from pytezos.contract.entrypoint import ContractEntrypoint
    from pytezos.michelson.sections.parameter import ParameterSection
    pexpr = {'prim': 'parameter', 'args': [t]}
    ctx = ExecutionContext()
    ctx.parameter_expr = pexpr
    P = ParameterSection.match(pexpr)
    return P, (lambda e: ContractEntrypoint(ctx, e))


def e_calls(P, t):
    """(entrypoint, argument) for every Tezos-listed entrypoint and the library's root name."""
    out = []
    for name, (path, _) in ref.listed(t).items():
        for a in e_values(ref.node_at(t, path)):
            out.append((name, a))
    if ref.field_annot(t) is None:
        for a in e_values(t):
            out.append((P.root_name, a))
    return out


def leaf_annotated(t, full):
    vp = ref.value_path(t, full) if t.get('prim') == 'or' else ''
    return ref.field_annot(ref.node_at(t, vp)) is not None


def check_call(t, e, a):
    """ContractEntrypoint / ParameterSection object round trips for one (entrypoint, argument)."""
    P, CE = e_setup(t)
    out = []
    try:
        pv = P.from_parameters({'entrypoint': e, 'value': a})
        full = pv.to_micheline_value(mode='readable')
    except Exception as ex:
        return [('from_parameters rejects a listed entrypoint with a well-typed argument (C13)', f'type={t} e={e} a={a} {err(ex)}')], 'rejected', None
    annotated_leaf = leaf_annotated(t, full)
    try:
        d = CE(e).decode(a)
        if d != pv.to_python_object():
            out.append((D_CE_ERR, f'type={t} e={e} a={a}: decode differs from from_parameters(...).to_python_object()'))
    except Exception as ex:
        return [(D_CE_ERR, f'type={t} decode e={e} a={a} {err(ex)}')], 'decode raises', None
    label = f'call {"leaf" if annotated_leaf else "unannotated-leaf"} -> obj:{obj_profile(d)[2]}{"+inferred-name" if obj_profile(d)[0] else ""}'
    # (a) ParameterSection level
    try:
        back = P.from_python_object(d).to_micheline_value(mode='readable')
        if back != full:
            out.append((D_PS_DIFF, f'type={t} full={full} object={d!r} back={back}'))
    except Exception as ex:
        name = d if isinstance(d, str) else next(iter(d))
        inferred = t.get('prim') == 'or' and name not in ref.listed(t) and name != P.root_name
        out.append((D_PS_INFERRED if inferred else D_PS_ERR, f'type={t} full={full} object={d!r} {err(ex)}'))
        label += ' ps:raises'
    # (b) encode the decoded object again: through the root entrypoint (union roots: the object IS the root's object) and
    #     through the entrypoint the object names, when that one is listed
    routes = []
    ncalls = 0
    if t.get('prim') == 'or':
        routes.append((P.root_name, d))
    if isinstance(d, dict) and len(d) == 1:
        k = next(iter(d))
        if k in ref.listed(t) or (t.get('prim') != 'or' and k == P.root_name):
            routes.append((k, d[k]))
    elif isinstance(d, str) and d in ref.listed(t):
        routes.append((d, None))
    for k, o in routes:
        for mode in ('readable', 'optimized'):
            try:
                p2 = CE(k).encode(o, mode=mode)
            except Exception as ex:
                out.append((D_CE_TOPARAM if not annotated_leaf else D_CE_ERR,
                            f'type={t} decoded={d!r}; encode via `{k}` of {o!r} mode={mode}: {err(ex)}'))
                label += ' enc:raises'
                break
            try:
                again = P.from_parameters(p2).to_micheline_value(mode='readable')
                if again != full:
                    out.append((D_CE_DIFF, f'type={t} full={full} decoded={d!r} encode via `{k}` -> {p2} = {again}'))
                d2 = CE(p2['entrypoint']).decode(p2['value'])
                if d2 != d:
                    out.append((D_CE_DEC, f'type={t} decoded={d!r} encode via `{k}` -> {p2} decodes to {d2!r}'))
            except Exception as ex:
                out.append((D_CE_ERR, f'type={t} decoded={d!r} encode via `{k}` -> {p2}: {err(ex)}'))
        else:
            # (c) the call proxy ep(...) is the documented way to encode: every call form that denotes the object `o`
            forms = call_forms(o)
            for form, make in forms:
                try:
                    p3 = make(CE(k)).parameters
                except Exception as ex:
                    out.append((D_CALL_ERR, f'type={t} decoded={d!r}; `{k}` called as {form} with obj={o!r}: {err(ex)}'))
                    label += ' call:raises'
                    continue
                try:
                    again = P.from_parameters(p3).to_micheline_value(mode='readable')
                    if again != full:
                        out.append((D_CALL_DIFF, f'type={t} full={full} decoded={d!r}; `{k}` called as {form} with obj={o!r} -> {p3} = {again}'))
                        label += ' call:differs'
                except Exception as ex:
                    out.append((D_CALL_ERR, f'type={t} decoded={d!r}; `{k}` called as {form} with obj={o!r} -> {p3}: {err(ex)}'))
            ncalls += len(forms)
    label += f' routes:{len(routes)} callforms:{ncalls}{"+falsy" if any(falsy(o) for _, o in routes) else ""}'
    return out, label, d


def falsy(o):
    return o is not None and not o


def call_forms(o):
    """The ways of calling an entrypoint proxy that pass the Python object `o` (ContractEntrypoint.__call__: one positional
    argument as is, several as a tuple, keyword arguments as a dict, none as None)."""
    forms = [('ep(obj)', lambda ep: ep(o))]
    if isinstance(o, tuple) and len(o) > 1:
        forms.append(('ep(*obj)', lambda ep: ep(*o)))
    if isinstance(o, dict) and o and all(isinstance(x, str) and x.isidentifier() for x in o):
        forms.append(('ep(**obj)', lambda ep: ep(**o)))
    if o is None:
        forms.append(('ep()', lambda ep: ep()))
    return forms


def run_param_type(r, t, calls):
    tkey = json.dumps(t, sort_keys=True)
    case = {'fam': 'E', 'type': t}
    try:
        P, _ = e_setup(t)
    except Exception as e:
        r.ev()
        r.viol('ParameterSection.match rejects a well-formed parameter type', case, f'type={t} {err(e)}')
        return case, None
    texts = []
    for e, a in calls:
        case = {'fam': 'E', 'type': t, 'entrypoint': e, 'arg': a}
        r.ev()
        vs, label, d = check_call(t, e, a)
        r.out(label)
        texts.append(repr(d) if label.startswith('call ') else None)
        for dsc, detail in vs:
            r.viol(dsc, case, detail)
        if d is not None:
            full = ref.wrap(ref.resolve(t, e) or '', a)
            if obj_profile(d)[0] or not leaf_annotated(t, full):
                r.nt((tkey, e, json.dumps(a, sort_keys=True)))
    return case, (None if None in texts else texts)


# ------------------------------------------------------------------------------------------------ process history
def raises_text(e):
    return f'raises {type(e).__name__}'


def item_texts(fam, item):
    """The plain conversions input -> Python object of one item (a type with its values / a parameter type with its calls)
    on a fresh build of the type, as texts."""
    t, inputs = item
    out = []
    try:
        conv = e_setup(t)[1] if fam == 'E' else M(json.loads(json.dumps(t)))
    except Exception as e:
        return [raises_text(e)] * len(inputs)
    for x in inputs:
        try:
            if fam == 'E':
                out.append(repr(conv(x[0]).decode(x[1])))
            else:
                out.append(repr(conv.from_micheline_value(x).to_python_object(lazy_diff=None)))
        except Exception as e:
            out.append(raises_text(e))
    return out


_HELPER = {}     # pid of the owning process -> (request file, answer file, helper pid)


def _helper():
    """The companion process of this process: forked from it before its first conversion (pristine apart from imports), it
    answers one request per shard - the object texts of every item, converted LAST item first.  One companion per lane, so its
    history is the lane's shard list in the opposite inner order: deterministic, like the lane's own."""
    import os
    import pickle
    me = os.getpid()
    if me in _HELPER:
        return _HELPER[me]
    _HELPER.clear()          # entries inherited from a parent process are not ours
    try:
        req_r, req_w = os.pipe()
        ans_r, ans_w = os.pipe()
        pid = os.fork()
    except OSError:
        _HELPER[me] = None
        return None
    if pid == 0:
        try:
            import gc
            gc.freeze()      # inherited objects are never collected here: keeps the collector from touching (copying) their pages
            os.close(req_w)
            os.close(ans_r)
            inp, out = os.fdopen(req_r, 'rb'), os.fdopen(ans_w, 'wb')
            while True:
                try:
                    spec = pickle.load(inp)
                except EOFError:
                    break
                try:
                    fam, items = shard_items(spec)
                    texts = [None] * len(items)
                    for i in range(len(items) - 1, -1, -1):
                        texts[i] = item_texts(fam, items[i])
                except Exception:
                    texts = None
                pickle.dump(texts, out)
                out.flush()
        except BaseException:
            pass
        finally:
            os._exit(0)
    os.close(req_r)
    os.close(ans_w)
    _HELPER[me] = (os.fdopen(req_w, 'wb'), os.fdopen(ans_r, 'rb'), pid)
    return _HELPER[me]


def _drop_helper():
    import os
    h = _HELPER.get(os.getpid())
    _HELPER[os.getpid()] = None
    if h:
        for f in h[:2]:
            try:
                f.close()
            except Exception:
                pass
        try:
            os.waitpid(h[2], 0)
        except Exception:
            pass


def reverse_request(spec):
    """Ask the companion for the reversed conversion of a shard; it works while this process does the shard in order."""
    import pickle
    h = _helper()
    if not h:
        return False
    try:
        pickle.dump(tuple(spec), h[0])
        h[0].flush()
        return True
    except Exception:
        _drop_helper()
        return False


def reverse_answer(n):
    """Texts of the n items from the companion, or None when there is no (usable) answer."""
    import os
    import pickle
    h = _HELPER.get(os.getpid())
    if not h:
        return None
    try:
        texts = pickle.load(h[1])
    except Exception:
        _drop_helper()
        return None
    return texts if isinstance(texts, list) and len(texts) == n else None


def shard_items(spec):
    spec = tuple(spec)
    if spec[0] == 'E':
        out = []
        for t in e_types(spec):
            try:
                out.append((t, e_calls(e_setup(t)[0], t)))
            except Exception:
                out.append((t, []))
        return 'E', out
    return spec[0], list(s_types(spec) if spec[0] == 'S' else k_types(spec) if spec[0] == 'K' else l_types(spec))


def judge_history(r, spec, fam, i, item, fwd, rev, len_after):
    """fwd = texts in shard order (after items 0..i-1), rev = texts from the companion (after items n-1..i+1)."""
    if rev is None:
        r.no_verdict += 1
        r.out('history: no companion process, order independence not judged')
        return
    r.extra['history_comparisons'] += len(fwd)
    if fwd == rev:
        r.out('history: same objects in both orders')
        return
    r.out('history: objects differ between orders')
    for vi, (a, b) in enumerate(zip(fwd, rev)):
        if a != b:
            what = item[1][vi]
            r.viol(D_HISTORY, {'fam': 'H', 'spec': list(spec), 'index': i, 'vi': vi, 'type': item[0], 'input': what},
                   f'type={item[0]} input={what}: object {a} when converted after the {i} items before it in the shard, '
                   f'{b} when converted after the {len_after} items behind it instead')


def judge_drift(r, spec, fam, items, first):
    """A-B-A: every item converted once more after the whole shard."""
    for i, item in enumerate(items):
        if first[i] is None:
            continue
        again = item_texts(fam, item)
        r.extra['history_comparisons'] += len(again)
        for vi, (a, b) in enumerate(zip(first[i], again)):
            if a != b:
                r.viol(D_DRIFT, {'fam': 'H', 'spec': list(spec), 'index': i, 'vi': vi, 'type': item[0], 'input': item[1][vi],
                                 'again': True},
                       f'type={item[0]} input={item[1][vi]}: object {a} first, {b} after the rest of the shard')
    r.out('history: every item converted again after the shard')


def replay_history(case):
    asked = not case.get('again') and reverse_request(case['spec'])
    fam, items = shard_items(case['spec'])
    i, vi = case['index'], case['vi']
    if case.get('again'):
        first = [item_texts(fam, it) for it in items]
        again = item_texts(fam, items[i])
        return [] if first[i][vi] == again[vi] else [(D_DRIFT, f'type={items[i][0]}: {first[i][vi]} first, {again[vi]} again')]
    fwd = None
    for j in range(i + 1):
        fwd = item_texts(fam, items[j])
    rev = reverse_answer(len(items)) if asked else None
    if rev is None:
        return []
    if fwd[vi] != rev[i][vi]:
        return [(D_HISTORY, f'type={items[i][0]} input={items[i][1][vi]}: object {fwd[vi]} in shard order, {rev[i][vi]} in the opposite order')]
    return []


# ------------------------------------------------------------------------------------------------ driver interface
def shards(tier, seed):
    return s_shards(tier) + l_shards(tier) + k_shards(tier) + e_shards(tier)


def run_shard(spec, tier):
    r = Result()
    case = None
    spec = tuple(spec)
    asked = reverse_request(spec)       # first: the companion is forked before this process has converted anything
    fam, items = shard_items(spec)
    first = []
    for i, item in enumerate(items):
        if fam == 'E':
            case, fwd = run_param_type(r, item[0], item[1])
        else:
            case, fwd = run_bare_type(r, fam, item[0], item[1])
        if fwd is None:
            fwd = item_texts(fam, item)
        first.append(fwd)
        if i == 0:
            r.sample(case)
    rev = reverse_answer(len(items)) if asked else None
    for i, item in enumerate(items):
        judge_history(r, spec, fam, i, item, first[i], rev[i] if rev is not None else None, len(items) - 1 - i)
    judge_drift(r, spec, fam, items, first)
    if case is not None:
        r.sample(case)
    return r


def replay(case):
    if case.get('fam') == 'H':
        return replay_history(case)
    t = case['type']
    if case.get('fam') == 'E':
        if 'entrypoint' not in case:
            try:
                e_setup(t)
                return []
            except Exception as e:
                return [('ParameterSection.match rejects a well-formed parameter type', f'type={t} {err(e)}')]
        return check_call(t, case['entrypoint'], case['arg'])[0]
    try:
        T = M(t)
    except Exception as e:
        return [('MichelsonType.match rejects a well-formed type', f'type={t} {err(e)}')]
    if 'value' not in case:
        return check_type(T, t)
    try:
        cd = make_cd(T, t, case['value'])
    except Exception:
        cd = None
    return check_type(T, t) + check_value(T, t, case['value'], cd)[0]


def observe(case):
    t = case['type']
    if case.get('fam') == 'E':
        if 'entrypoint' not in case:
            return {'type': t}
        vs, label, d = check_call(t, case['entrypoint'], case['arg'])
        return {'label': label, 'obj': repr(d), 'viol': [x[0] for x in vs]}
    T = M(t)
    if 'value' not in case:
        return {'shared': shared_names(T)}
    vs, label, o = check_value(T, t, case['value'], None)
    return {'label': label, 'obj': repr(o), 'viol': [x[0] for x in vs]}
