"""C01 — the interpreter computes the Michelson reference result for well-typed programs.

Explicit-state model checking of the real instruction classes in lock-step with the reference evaluator
(mc.ref.meval, validated against 248 Octez opcode vectors): BFS from 48 seed stacks over every well-typed instruction
instance of the alphabet (stack ops, pairs/combs, option/or, lists, sets, maps, control flow with a body library,
lambdas incl. LAMBDA_REC/APPLY, COMPARE, arithmetic, strings/bytes, PACK/UNPACK, hashes, environment readers), with
canonical-state deduplication.  On every transition: equal result stacks (lambdas compared extensionally), or both
FAILWITH with the same value, or both fail at run time.  A second leg crosses the environment readers with an
environment alphabet and proves by enumeration that all other instructions ignore the environment; a third leg runs
whole scripts through Interpreter.run_code (begin/end).
"""
from __future__ import annotations

import itertools

from mc import adapter as A
from mc import impl as M
from mc import interp as X
from mc.engine.report import Result
from mc.impl import I, P, PUSH, TY
from mc.ref import meval as E
from mc.ref import mtypes as T

ID = 'C01'
LEVEL = 'model_checking'
MODE = 'C01'
RULE = ('state = concrete typed stack; transitions = every alphabet instruction instance that the reference typing rules accept on the '
        'state; BFS with canonical dedup from 48 seeds; each transition executed on the real instruction class and on the reference evaluator')
BOUND = {'quick': 'depth 2 from every seed (full alphabet at depth 0, reduced alphabet at depth 1); env leg: 144 environments x 10 readers; '
                  'whole-program leg: all depth<=2 single-slot paths that preserve the storage type',
         'thorough': 'depth 3 (full alphabet at depths 0-1, reduced at depth 2)'}
ASSUMPTIONS = ['reference semantics = mc.ref.meval (conformance: Octez opcode vectors in the repository)',
               'sapling, chests, VIEW, EMIT, CONTRACT/SELF, voting power and operations are outside the reference and not explored',
               'FAILWITH values are compared through repr() for int/nat/string/bool/unit/pairs only; otherwise only "both FAILWITH"']
LEVEL_TEXT = ('exhaustive over all well-typed instruction sequences up to the depth bound from 48 data-shape-covering seed stacks; '
              'decides the interpreter logic on small values, not all values')

NCHUNK = 4


def shards(tier, seed):
    depth = 2 if tier == 'quick' else 3
    out = [('bfs', i, c, depth) for i in range(len(X.SEEDS)) for c in range(NCHUNK)]
    out += [('env', k) for k in range(8)]
    out += [('prog', i) for i in range(len(X.SEEDS))]
    return out


ENV_ALPHABET = {
    'amount': [0, 1, 2**63 - 1], 'balance': [0, 5], 'sender': [('tz1', T.HM, ''), ('KT1', T.H1, '')],
    'source': [('tz1', T.HM, ''), ('tz2', T.H0, '')], 'now': [-1, 0, 2**40], 'level': [0, 1, 2**31],
    'self_address': [('KT1', T.H1, ''), ('KT1', T.HF, '')], 'chain_id': [b'\x7a\x06\xa7\x70', b'\x00\x00\x00\x01'],
}


def env_leg(k, r):
    keys = list(ENV_ALPHABET)
    envs = [dict(zip(keys, vals)) for vals in itertools.product(*ENV_ALPHABET.values())]
    for ei, env in enumerate(envs):
        if ei % 8 != k:
            continue
        ctx = M.make_context(env)
        for rd in X.ENV_READERS:
            code = P(rd)
            ref = X.ref_move(code, (), env)
            out, stack = M.run_impl(code, [], ctx)
            r.transitions += 1
            r.traces += 1
            r.nt(('env', ei, rd))
            case = {'env': {kk: (list(v) if isinstance(v, tuple) else v) for kk, v in env.items()}, 'move': code, 'mode': 'env'}
            if out[0] != 'ok':
                # level 0 / min_block_time etc. may be unrepresentable only if the context refuses them
                r.out(f'{rd}:impl-{out[0]}')
                r.viol(f'{rd}: fails under an explicit environment', case, f'{out}')
                continue
            d = X.same_value(ref[1][0][0], stack.items[0], ref[1][0][1], ctx)
            r.out(f'{rd}:{"ok" if not d else "BAD"}')
            if d:
                r.viol(f'{rd}: does not return the environment value', case, f'env {env}: {d}')
    # every other instruction ignores the environment: two contrasting environments, depth 1 from every seed
    if k == 0:
        e1 = {kk: v[0] for kk, v in ENV_ALPHABET.items()}
        e2 = {kk: v[-1] for kk, v in ENV_ALPHABET.items()}
        c1, c2 = M.make_context(e1), M.make_context(e2)
        for si, seed in enumerate(X.SEEDS):
            for code in X.instances_cached([t for t, _ in seed], True):
                if code['prim'] in X.ENV_READERS:
                    continue
                o1, s1 = M.run_impl(code, seed, c1)
                o2, s2 = M.run_impl(code, seed, c2)
                r.transitions += 2
                if o1 != o2 or [repr(x) for x in s1.items] != [repr(x) for x in s2.items]:
                    r.viol(f'{X.classify(code)}: result depends on the environment', {'seed': si, 'history': [], 'move': code, 'mode': 'C01'}, f'{o1} vs {o2}')
                r.out('env-independent')


def prog_leg(si, r):
    """Whole scripts through Interpreter.run_code: parameter unit; storage t; code { CDR; <path>; NIL operation; PAIR }."""
    from pytezos.michelson.repl import Interpreter
    seed = X.SEEDS[si]
    if len(seed) != 1 or not T.storable(seed[0][0]) or not T.pushable(seed[0][0]):
        return
    t, v = seed[0]
    paths = [[]]
    for c1 in X.instances_cached([t], True):
        try:
            s1 = E.typecheck(c1, [t])
        except E.IllTyped:
            continue
        if s1 is E.FAILS:
            paths.append([c1])
            continue
        if s1 == [t]:
            paths.append([c1])
        for c2 in X.instances_cached(s1, True):
            s2 = E.typecheck(c2, s1)
            if s2 is E.FAILS or s2 == [t]:
                paths.append([c1, c2])
    for path in paths:
        code = [P('CDR')] + path + [P('NIL', TY(E.OPERATION)), P('PAIR')]
        script = [P('parameter', TY(E.UNIT)), P('storage', TY(t)), P('code', code)]
        ref = X.ref_move(path, (seed[0],))
        if ref[0] == 'fuel':
            continue
        ops, storage, lazy, stdout, err = Interpreter.run_code(parameter={'prim': 'Unit'}, storage=T.v_to_micheline(t, v), script=script)
        r.transitions += 1
        r.traces += 1
        r.nt(('prog', si, str(path)))
        case = {'seed': si, 'path': path, 'mode': 'prog'}
        if ref[0] == 'ok':
            if err is not None:
                r.out('prog: impl error')
                r.viol(f'run_code fails where the reference succeeds ({X.classify(path[-1]) if path else "empty"})', case, f'{err!r}')
                continue
            rt, rv = ref[1][0]
            try:
                got = T.v_from_micheline(rt, storage)
            except T.BadValue as e:
                got = f'unparseable storage {storage}: {e}'
            if rt[0] == 'lambda' or 'lambda' in T.t_str(rt):
                r.no_verdict += 1
                continue
            r.out('prog: ok' if got == rv else 'prog: BAD')
            if got != rv:
                r.viol(f'run_code returns the wrong storage ({X.classify(path[-1]) if path else "empty"})', case, f'{got!r} vs {rv!r}')
        else:
            r.out(f'prog: {ref[0]}')
            if err is None:
                r.viol(f'run_code succeeds where the reference fails ({X.classify(path[-1])})', case, f'storage {storage} / reference {ref}')
            elif ref[0] == 'failwith' and 'FAILWITH' not in err.args:
                r.viol(f'run_code: reference FAILWITH, implementation other error ({X.classify(path[-1])})', case, f'{err!r}')


def run_shard(spec, tier):
    r = Result()
    if spec[0] == 'bfs':
        _, si, chunk, depth = spec
        X.explore(MODE, si, chunk, NCHUNK, depth, 1 if depth == 2 else 2, r)
        if chunk == 0:
            r.sample({'seed': si, 'history': [], 'move': P('DUP') if X.SEEDS[si] else P('UNIT'), 'mode': MODE})
    elif spec[0] == 'env':
        env_leg(spec[1], r)
    else:
        prog_leg(spec[1], r)
    r.ev(r.transitions)
    for h in list(r.state_hashes)[:0]:
        pass
    r.nontrivial |= r.state_hashes  # distinct non-trivial = distinct canonical states reached (plus env/program cases)
    return r


def replay(case):
    if case.get('mode') == 'env':
        env = {k: (tuple(v) if isinstance(v, list) else v) for k, v in case['env'].items()}
        ctx = M.make_context(env)
        ref = X.ref_move(case['move'], (), env)
        out, stack = M.run_impl(case['move'], [], ctx)
        if out[0] != 'ok':
            return [('env reader fails', str(out))]
        d = X.same_value(ref[1][0][0], stack.items[0], ref[1][0][1], ctx)
        return [('env reader wrong', d)] if d else []
    if case.get('mode') == 'prog':
        r = Result()
        prog_leg(case['seed'], r)
        return [(d, v['cases'][0]['detail']) for d, v in r.violations.items() if any(c['case'].get('path') == case['path'] for c in v['cases'])]
    return X.replay_case(MODE, case)


def observe(case):
    if case.get('mode') in ('env', 'prog'):
        return None
    return X.observe_case(MODE, case)
