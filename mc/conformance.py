"""Conformance of the reference evaluator (mc.ref.meval / mtypes) against the Octez opcode vectors shipped in
/repo/tests/unit_tests/test_michelson/test_repl (scripts + (storage, parameter, expected) triples of test_opcodes.py,
read with `ast`, not imported).  pytezos is used ONLY as a text->Micheline parser here.  A failure is a harness error.

Vectors whose script uses instructions outside the reference, or that need chain context, are skipped and counted.
"""
import ast
import os
import sys

REPO = os.environ.get('VERIF_REPO', '/repo')
sys.path.insert(0, os.path.join(REPO, 'src'))
TESTDIR = os.path.join(REPO, 'tests/unit_tests/test_michelson/test_repl')

# vector -> reason: the recorded expectation is not Octez behaviour or depends on something outside the reference
ALLOW = {
}


def vectors():
    src = open(os.path.join(TESTDIR, 'test_opcodes.py')).read()
    tree = ast.parse(src)
    consts = {}
    for node in tree.body:
        if isinstance(node, ast.Assign) and isinstance(node.targets[0], ast.Name):
            try:
                consts[node.targets[0].id] = ast.literal_eval(node.value)
            except Exception:
                pass

    def ev(n):
        if isinstance(n, ast.Constant):
            return n.value
        if isinstance(n, ast.Name):
            return consts[n.id]
        if isinstance(n, ast.JoinedStr):
            return ''.join(ev(v) for v in n.values)
        if isinstance(n, ast.FormattedValue):
            return str(ev(n.value))
        if isinstance(n, ast.BinOp) and isinstance(n.op, ast.Add):
            return ev(n.left) + ev(n.right)
        if isinstance(n, ast.BinOp) and isinstance(n.op, ast.Mod):
            return ev(n.left) % ev(n.right)
        if isinstance(n, ast.Tuple):
            return tuple(ev(e) for e in n.elts)
        raise ValueError(ast.dump(n))

    out = []
    for fn in ast.walk(tree):
        if not isinstance(fn, ast.FunctionDef):
            continue
        for dec in fn.decorator_list:
            if isinstance(dec, ast.Call) and getattr(dec.func, 'attr', '') == 'expand':
                for t in dec.args[0].elts:
                    if isinstance(t, ast.Tuple) and len(t.elts) == 4:
                        try:
                            out.append(tuple(ev(e) for e in t.elts) + (fn.name,))
                        except Exception:
                            pass
    return out, consts


def main():
    import logging
    logging.disable(logging.CRITICAL)
    from pytezos.michelson.parse import michelson_to_micheline
    from mc.ref import meval as E
    from mc.ref import mtypes as T
    vecs, consts = vectors()
    ok = skipped = bad = 0
    reasons = {}
    for script, storage, param, expected, test in vecs:
        key = (script, storage, param)
        must_fail = test == 'test_failed_opcodes'
        try:
            code = michelson_to_micheline(open(os.path.join(TESTDIR, 'opcodes', script)).read())
            sec = {s['prim']: s['args'] for s in code}
            tp, ts = T.t_from_micheline(sec['parameter'][0]), T.t_from_micheline(sec['storage'][0])
            vp = T.v_from_micheline(tp, michelson_to_micheline(param))
            vs = T.v_from_micheline(ts, michelson_to_micheline(storage))
            env = {'chain_id': __import__('mc.ref.base58', fromlist=['x']).dec('Net', consts.get('CHAIN_ID', 'NetXdQprcVkpaWU')),
                   'balance': consts.get('BALANCE', 0), 'total_voting_power': consts.get('TOTAL_VOTING_POWER', 0),
                   'min_block_time': consts.get('MIN_BLOCK_TIME', 1)}
            E.typecheck(sec['code'][0], [('pair', tp, ts)])
            res = E.run(sec['code'][0], [(('pair', tp, ts), (vp, vs))], env)
            if must_fail:
                bad += 1
                print('MISMATCH (reference does not fail)', key)
                continue
            exp = T.v_from_micheline(ts, michelson_to_micheline(expected))
        except (E.IllTyped, T.BadValue, KeyError, ValueError) as e:
            skipped += 1
            r = str(e)[:60]
            reasons[r] = reasons.get(r, 0) + 1
            continue
        except (E.Failwith, E.RuntimeFail) as e:
            if must_fail:
                ok += 1
                continue
            bad += 1
            print('MISMATCH (reference fails)', key, repr(e)[:200])
            continue
        got = res[0][1][1]
        if got == exp:
            ok += 1
        elif key in ALLOW:
            skipped += 1
        else:
            bad += 1
            print('MISMATCH', key, 'reference:', got, 'recorded:', exp)
    print(f'conformance: {ok} Octez opcode vectors reproduced by the reference evaluator, {skipped} skipped, {bad} mismatches')
    if os.environ.get('VERIF_CONF_VERBOSE'):
        for r, n in sorted(reasons.items(), key=lambda kv: -kv[1]):
            print(f'   skipped {n}: {r}')
    return 2 if bad else 0


if __name__ == '__main__':
    sys.exit(main())
