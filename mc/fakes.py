"""Fakes for the seams the explorer owns (HTTP, sleep)."""
from __future__ import annotations

import json as _json
from contextlib import contextmanager


class FakeResponse:
    def __init__(self, status_code: int, body, content_type: str = 'application/json'):
        self.status_code = status_code
        self.headers = {'content-type': content_type} if content_type else {}
        if isinstance(body, str):
            self.text = body
        else:
            self.text = _json.dumps(body)

    def json(self):
        from simplejson import JSONDecodeError
        try:
            return _json.loads(self.text)
        except ValueError as e:
            raise JSONDecodeError('bad json', self.text, 0) from e


@contextmanager
def patched_http(request_fn, sleep_fn):
    """Replace requests.request and sleep as seen by pytezos.rpc.node."""
    import pytezos.rpc.node as node

    class _Req:
        exceptions = node.requests.exceptions

        @staticmethod
        def request(**kw):
            return request_fn(**kw)

    old_r, old_s = node.requests, node.sleep
    node.requests = _Req
    node.sleep = sleep_fn
    try:
        yield
    finally:
        node.requests = old_r
        node.sleep = old_s
