"""Adapter between the reference forms (mc.ref.mtypes) and pytezos' value objects.

to_impl builds implementation values through from_micheline_value on *readable* Micheline (the same path PUSH
uses); from_impl walks the implementation objects directly (.value/.items/.item), so reading a result does not
route through to_micheline_value (which has its own properties C10/C11).
"""
from __future__ import annotations

import json
from functools import lru_cache

from mc.ref import mtypes as T


def strip_annots(e):
    if isinstance(e, list):
        return [strip_annots(x) for x in e]
    if isinstance(e, dict) and 'prim' in e:
        out = {'prim': e['prim']}
        if e.get('args'):
            out['args'] = [strip_annots(a) for a in e['args']]
        return out
    return e


@lru_cache(maxsize=None)
def mk_type(t):
    from pytezos.michelson.types.base import MichelsonType
    return MichelsonType.match(T.t_to_micheline(t))


def to_impl(t, v):
    """Reference value -> pytezos value object of type t."""
    p = t[0]
    if p == 'ticket':
        from pytezos.michelson.types.ticket import TicketType
        _, ticketer, content, amount = v
        return TicketType.create(T.address_str(ticketer), to_impl(t[1], content), amount)
    if _has(t, 'ticket') or _has_app(v):
        return _to_impl_struct(t, v)
    return mk_type(t).from_micheline_value(T.v_to_micheline(t, v, 'readable'))


def _has(t, prim) -> bool:
    return t[0] == prim or any(_has(a, prim) for a in t[1:] if isinstance(a, tuple))


def _has_app(v) -> bool:
    """Value contains a lambda without a literal form in pytezos (partially applied, or recursive)."""
    if isinstance(v, tuple):
        if len(v) == 4 and v[0] == 'app':
            return True
        if len(v) == 2 and v[0] == 'lamrec':
            return True
        return any(_has_app(x) for x in v)
    return False


def _to_impl_struct(t, v):
    """Structural construction for values without a literal form (tickets, applied lambdas inside containers)."""
    from pytezos.michelson.types import ListType, OptionType, OrType, PairType
    from pytezos.michelson.types.base import Undefined
    p = t[0]
    cls = mk_type(t)
    if p == 'ticket':
        return to_impl(t, v)
    if p == 'pair':
        return cls((_to_impl_struct(t[1], v[0]), _to_impl_struct(t[2], v[1])))
    if p == 'option':
        return cls(None if v is None else _to_impl_struct(t[1], v[1]))
    if p == 'or':
        return cls((_to_impl_struct(t[1], v[1]), Undefined)) if v[0] == 'L' else cls((Undefined, _to_impl_struct(t[2], v[1])))
    if p == 'list':
        return cls([_to_impl_struct(t[1], x) for x in v])
    if p == 'map':
        return cls([(to_impl(t[1], k), _to_impl_struct(t[2], x)) for k, x in v])
    if p == 'lambda' and v[0] == 'lamrec':
        # pytezos has no Lambda_rec literal: obtain the value the way a program does, from the LAMBDA_REC instruction
        from pytezos.context.impl import ExecutionContext
        from pytezos.michelson.micheline import Micheline
        from pytezos.michelson.stack import MichelsonStack
        st = MichelsonStack()
        ins = {'prim': 'LAMBDA_REC', 'args': [T.t_to_micheline(t[1]), T.t_to_micheline(t[2]), json.loads(v[1])]}
        Micheline.match(ins).execute(st, [], ExecutionContext())
        return st.items[0]
    if p == 'lambda' and v[0] == 'app':
        # the implementation's own representation of a partially applied lambda: { PUSH ty v ; PAIR ; <body> }
        from pytezos.michelson.micheline import Micheline
        from pytezos.michelson.types import LambdaType
        _, ct, cv, inner = v
        inner_obj = _to_impl_struct(('lambda', ('pair', ct, t[1]), t[2]), inner)
        code = [{'prim': 'PUSH', 'args': [T.t_to_micheline(ct), T.v_to_micheline(ct, cv)]}, {'prim': 'PAIR'},
                inner_obj.value.as_micheline_expr()]
        return mk_type(t)(Micheline.match(code))
    return mk_type(t).from_micheline_value(T.v_to_micheline(t, v, 'readable'))


class AdapterError(Exception):
    """The implementation object is internally inconsistent (wrong class / shape for its declared type)."""


def impl_type(obj_or_cls):
    cls = obj_or_cls if isinstance(obj_or_cls, type) else type(obj_or_cls)
    return T.t_from_micheline(strip_annots(cls.as_micheline_expr()))


def from_impl(obj, t=None):
    """pytezos value object -> reference value, read structurally.  `t` (reference type) defaults to the object's own type."""
    from pytezos.michelson.types.base import MichelsonType
    if not isinstance(obj, MichelsonType):
        raise AdapterError(f'not a Michelson value: {obj!r}')
    if t is None:
        t = impl_type(obj)
    p = t[0]
    if obj.prim != p:
        raise AdapterError(f'value of class {obj.prim} where {p} expected')
    if p in ('int', 'nat', 'mutez', 'timestamp'):
        if not isinstance(obj.value, int) or isinstance(obj.value, bool):
            raise AdapterError(f'{p} holds {obj.value!r}')
        return obj.value
    if p == 'string':
        return obj.value
    if p in ('bytes',):
        return bytes(obj.value)
    if p == 'bool':
        if not isinstance(obj.value, bool):
            raise AdapterError(f'bool holds {obj.value!r}')
        return obj.value
    if p == 'unit':
        return ()
    if p == 'pair':
        if len(obj.items) != 2:
            raise AdapterError('pair arity')
        return (from_impl(obj.items[0], t[1]), from_impl(obj.items[1], t[2]))
    if p == 'option':
        return None if obj.item is None else ('Some', from_impl(obj.item, t[1]))
    if p == 'or':
        l, r = obj.is_left(), obj.is_right()
        if l == r:
            raise AdapterError('or value is neither/both')
        return ('L', from_impl(obj.items[0], t[1])) if l else ('R', from_impl(obj.items[1], t[2]))
    if p in ('list', 'set'):
        return tuple(from_impl(x, t[1]) for x in obj.items)
    if p == 'map':
        return tuple((from_impl(k, t[1]), from_impl(x, t[2])) for k, x in obj.items)
    if p == 'address':
        return T.parse_address(obj.value)
    if p == 'key_hash':
        return T.parse_key_hash(obj.value)
    if p == 'key':
        return T.parse_key(obj.value)
    if p == 'signature':
        return T.parse_sig(obj.value)
    if p == 'chain_id':
        from mc.ref import base58 as b58
        return b58.dec('Net', obj.value)
    if p == 'lambda':
        e = obj.value.as_micheline_expr()
        if isinstance(e, dict) and e.get('prim') == 'Lambda_rec':
            return ('lamrec', json.dumps(strip_annots(e['args'][0]), sort_keys=True))
        return ('lam', json.dumps(e, sort_keys=True))
    if p == 'ticket':
        return ('ticket', T.parse_address(obj.ticketer), from_impl(obj.item, t[1]), obj.amount)
    if p in ('bls12_381_fr', 'bls12_381_g1', 'bls12_381_g2'):
        return obj.to_micheline_value()['bytes']
    if p == 'operation':
        return ('op', json.dumps(obj.content, sort_keys=True, default=str))
    raise AdapterError(f'unsupported type {t}')


def consistent(obj, t, path='') -> list:
    """C02: recursive check that the object's class type and all nested objects have exactly the (annotation-stripped)
    type t.  Returns a list of problems (empty = consistent)."""
    from pytezos.michelson.types.base import MichelsonType
    out = []
    if not isinstance(obj, MichelsonType):
        return [f'{path}: not a Michelson value ({obj!r})']
    own = impl_type(obj)
    if own != t:
        out.append(f'{path or "."}: value typed {T.t_str(own)}, expected {T.t_str(t)}')
        return out
    p = t[0]
    try:
        if p == 'pair':
            for i in (0, 1):
                out += consistent(obj.items[i], t[1 + i], f'{path}/{i}')
        elif p == 'option':
            if obj.item is not None:
                out += consistent(obj.item, t[1], path + '/some')
        elif p == 'or':
            if obj.is_left():
                out += consistent(obj.items[0], t[1], path + '/L')
            else:
                out += consistent(obj.items[1], t[2], path + '/R')
        elif p in ('list', 'set'):
            for i, x in enumerate(obj.items):
                out += consistent(x, t[1], f'{path}/[{i}]')
        elif p == 'map':
            for i, (k, x) in enumerate(obj.items):
                out += consistent(k, t[1], f'{path}/key[{i}]')
                out += consistent(x, t[2], f'{path}/val[{i}]')
        elif p == 'ticket':
            out += consistent(obj.item, t[1], path + '/content')
        elif p in ('int', 'nat', 'mutez', 'timestamp'):
            if not isinstance(obj.value, int) or isinstance(obj.value, bool):
                out.append(f'{path}: {p} holds {type(obj.value).__name__}')
            elif p in ('nat', 'mutez') and obj.value < 0:
                out.append(f'{path}: negative {p}')
    except Exception as e:  # malformed object graph
        out.append(f'{path}: malformed value ({type(e).__name__}: {e})')
    return out


def mk_stack(slots):
    """[(t, v), ...] top first -> MichelsonStack."""
    from pytezos.michelson.stack import MichelsonStack
    return MichelsonStack([to_impl(t, v) for t, v in slots])


def read_stack(stack):
    return [(impl_type(o), from_impl(o)) for o in stack.items]
