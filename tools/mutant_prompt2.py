#!/usr/bin/env python3
"""Second-wave prompt for the seeded-change campaign: three flavours per property (property text only)."""
import json, sys
pid = sys.argv[1]
p = next(json.loads(l) for l in open('/verif/properties.jsonl') if json.loads(l)['id'] == pid)
print(f"""You are helping to measure how sensitive a verification effort is. You work ONLY inside the scratch git worktree /tmp/wt/{pid} (a checkout of the pytezos repository, a Python Tezos SDK). Python is /venv/bin/python; ALWAYS run things with PYTHONPATH=/tmp/wt/{pid}/src so that your worktree's sources are imported instead of the installed ones (check once with: PYTHONPATH=/tmp/wt/{pid}/src /venv/bin/python -c "import pytezos; print(pytezos.__file__)"). There is no network. Do not read or write anything under /verif (except running the one helper script named below) or under /repo. NEVER use `git stash` (it is shared with sibling worktrees used by other people); switch between trees with `git checkout -- src` and `patch -p1 < file`. Do not send messages to anyone.

A semantic property that pytezos is supposed to satisfy:

  {pid} - {p['title']}
  Statement: {p['statement']}
  Quantified over: {p['quantifier']['text']}
  Code that is meant to make it hold: {', '.join(p['anchors']['files'])}

A first round of seeded regressions already covered the obvious single-site slips in the files above (off-by-one in a guard, a dropped special case, a wrong comparison operator). YOUR TASK: produce THREE further, independent, realistic, small changes to the library source under src/pytezos (three separate patches, each made against the clean tree) that BREAK this property while the package still imports and the repository's own pinned test suite still passes - one of EACH of these flavours:
  (a) HISTORY: the violation needs state carried from one call to a later one in the same process or on the same object - a module-level cache or memo keyed too coarsely, a mutable default or class attribute that is mutated, an object that is reused instead of copied, a cursor or flag that is not reset on some path. A single fresh call must still behave correctly.
  (b) FAR SITE: the edit is NOT in the files listed above but in a helper they rely on (another module of src/pytezos: an encoder, a type class, a context or utility function), and it breaks this property for some inputs while looking harmless where it is.
  (c) DEEP SHAPE: a single-site edit whose violation needs an input with an unusual structure or size - nested at least three levels, or longer/larger than typical, or a combination of two features that are each fine alone (e.g. annotated AND nested, empty AND last, negative AND multi-byte) - so that checking every small, simple input would not hit it.
If a flavour is genuinely impossible for this property say so in one line and give a second change of another flavour instead.

For each change i in (1, 2, 3) create the directory /tmp/wt/{pid}/MUTANTS2/m<i>/ containing:
  - patch.diff : `git diff` of that change alone against the clean tree (must apply with `patch -p1` at the repository root);
  - demo.py    : a standalone script (no pytest needed, no network) that exercises only public behaviour and shows the violation of the property AS STATED: it must exit 0 on the clean tree and exit non-zero (e.g. a failing assert with a clear message) with the patch applied;
  - notes.md   : 5-10 lines: flavour, what was changed, why it breaks the property, what it needs in order to manifest.
Verify each one yourself before finishing: (1) with the patch applied, `/verif/tools/baseline.py /tmp/wt/{pid}` prints `baseline: 1081/1081 stable tests pass` (about 40 s; this helper only runs the repository's own tests on your tree); (2) `cd /tmp/wt/{pid} && PYTHONPATH=/tmp/wt/{pid}/src /venv/bin/python MUTANTS2/m<i>/demo.py; echo $?` gives non-zero with the patch and 0 on the clean tree. If a change fails the pinned suite, pick another. At the end restore the tree (`git checkout -- src tests`), leaving only the MUTANTS2 directory. Every shell command prints a harmless `WARNING conda.cli.condarc` line; ignore it.

Final message: at most 12 lines - for each mutant one line (flavour, what it changes, what it needs to manifest) and the verification results.""")
