#!/venv/bin/python
"""Mutation campaign helper.

  seeded.py verify <dir>     : <dir> = /verif/seeded/<id>/ with patch.diff, demo (demo.py or demo_test.py) and meta.json.
                               Copies /repo to a scratch tree, checks: demo passes on the clean tree, patch applies,
                               demo FAILS on the patched tree, the repository's pinned suite still passes on the patched tree.
  seeded.py detect <dir> [--tier quick] : runs the check(s) of meta.json["property"] against the patched scratch tree
                               (VERIF_REPO) and reports whether a VIOLATION is raised.  Never touches /repo.
  seeded.py all [--tier quick]: detect for every directory under /verif/seeded, print a table.
Scratch trees live under /var/tmp and are removed afterwards.
"""
import json, os, shutil, subprocess, sys, tempfile

V = os.path.dirname(os.path.dirname(os.path.abspath(__file__)))


def scratch():
    d = tempfile.mkdtemp(prefix='seededscratch', dir='/var/tmp')
    for x in ('src', 'tests', 'pyproject.toml'):
        subprocess.run(['rsync', '-a', f'/repo/{x}', d + '/'], check=True)
    return d


def apply(d, patch):
    p = subprocess.run(['patch', '-p1', '-s', '-d', d, '-i', patch], capture_output=True, text=True)
    if p.returncode:
        raise SystemExit(f'patch does not apply: {p.stdout}{p.stderr}')


def run_demo(d, sdir):
    env = dict(os.environ, PYTHONPATH=os.path.join(d, 'src'), PYTHONDONTWRITEBYTECODE='1', PYTHONHASHSEED='0')
    env.pop('PYTEZOS_VERIF', None)
    for name in sorted(os.listdir(sdir)):
        if name.startswith('demo') and name.endswith('.py'):
            f = os.path.join(sdir, name)
            if name.startswith('demo_test') or name.endswith('_test.py'):
                cmd = ['/venv/bin/python', '-m', 'pytest', '-q', '-p', 'no:cacheprovider', f]
            else:
                cmd = ['/venv/bin/python', '-W', 'ignore', f]
            p = subprocess.run(cmd, cwd=d, env=env, capture_output=True, text=True)
            return p.returncode, (p.stdout + p.stderr)[-1500:]
    raise SystemExit('no demo*.py in ' + sdir)


def verify(sdir):
    sdir = os.path.abspath(sdir)
    d = scratch()
    try:
        rc0, out0 = run_demo(d, sdir)
        apply(d, os.path.join(sdir, 'patch.diff'))
        rc1, out1 = run_demo(d, sdir)
        b = subprocess.run([os.path.join(V, 'tools/baseline.py'), d], capture_output=True, text=True)
        ok = rc0 == 0 and rc1 != 0 and b.returncode == 0
        print(f'{os.path.basename(sdir.rstrip("/"))}: demo clean rc={rc0}, demo patched rc={rc1}, baseline: {b.stdout.strip().splitlines()[0] if b.stdout else b.stderr[-200:]} => {"CONFIRMED" if ok else "REJECTED"}')
        if not ok:
            print('--- clean:', out0[-600:], '\n--- patched:', out1[-600:], '\n--- baseline:', b.stdout[-800:])
        return ok
    finally:
        shutil.rmtree(d, ignore_errors=True)


def detect(sdir, tier='quick'):
    sdir = os.path.abspath(sdir)
    meta = json.load(open(os.path.join(sdir, 'meta.json')))
    props = meta['property'] if isinstance(meta['property'], list) else [meta['property']]
    props = props + [p for p in meta.get('also_check', []) if p not in props]
    d = scratch()
    res = {}
    try:
        apply(d, os.path.join(sdir, 'patch.diff'))
        for p in props:
            env = dict(os.environ, VERIF_REPO=d, VERIF_OUT=os.path.join(d, 'verifout'))
            r = subprocess.run([os.path.join(V, 'check'), p, '--tier', tier], capture_output=True, text=True, env=env, cwd=V)
            viol = [l for l in r.stdout.splitlines() if l.startswith('VIOLATION')]
            res[p] = (r.returncode, len(viol), [l.strip()[:160] for l in r.stdout.splitlines() if 'violating descriptor' in l][:3])
    finally:
        shutil.rmtree(d, ignore_errors=True)
    return res


if __name__ == '__main__':
    tier = sys.argv[sys.argv.index('--tier') + 1] if '--tier' in sys.argv else 'quick'
    if sys.argv[1] == 'verify':
        sys.exit(0 if verify(sys.argv[2]) else 1)
    if sys.argv[1] == 'detect':
        r = detect(sys.argv[2], tier)
        for p, (rc, n, d) in r.items():
            print(f'{os.path.basename(sys.argv[2].rstrip("/"))} {p}: exit={rc} violations={n} {"DETECTED" if rc == 1 and n else "MISSED" if rc == 0 else "ERROR"} {d}')
    if sys.argv[1] == 'all':
        base = os.path.join(V, 'seeded')
        for name in sorted(os.listdir(base)):
            sd = os.path.join(base, name)
            if os.path.exists(os.path.join(sd, 'patch.diff')):
                try:
                    results = detect(sd, tier)
                except SystemExit as e:
                    print(f'{name}: PATCH-FAILS {str(e)[:120]}')
                    continue
                for p, (rc, n, d) in results.items():
                    print(f'{name} {p}: exit={rc} violations={n} {"DETECTED" if rc == 1 and n else "MISSED" if rc == 0 else "ERROR"}')
