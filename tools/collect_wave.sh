#!/bin/bash
# collect_wave.sh <dirname under worktree: MUTANTS|MUTANTS2> <suffix prefix: m|w2m> ids...
sub=$1; pre=$2; shift 2
cd /verif
for id in "$@"; do for src in /tmp/wt/C$id/$sub/m*; do [ -f $src/patch.diff ] || { echo "missing $src"; continue; }; m=$(basename $src); d=seeded/C$id-${pre}${m#m}; mkdir -p $d; cp $src/patch.diff $src/demo.py $d/; cp $src/notes.md $d/ 2>/dev/null; python3 - $d C$id <<'PY'
import json,sys,os
d,pid=sys.argv[1:3]
notes=open(os.path.join(d,'notes.md')).read() if os.path.exists(os.path.join(d,'notes.md')) else ''
json.dump({"property":pid,"source":"independent sub-agent given only the property text and a scratch worktree (wave 5)","needs_to_manifest":"see notes.md","notes_excerpt":notes[:700]}, open(os.path.join(d,'meta.json'),'w'), indent=1)
PY
done; git -C /repo worktree remove --force /tmp/wt/C$id; done; git -C /repo worktree prune; ls seeded | wc -l
