#!/venv/bin/python
"""Rewrite the 'what the quick tier explores' column of DESIGN.md section 4.0 from each driver's BOUND['quick'] string
(single source of truth: the drivers), and the evidence counts from evidence/<id>.json."""
import importlib, json, os, re, sys
V = os.path.dirname(os.path.dirname(os.path.abspath(__file__)))
sys.path.insert(0, V); sys.path.insert(0, '/repo/src')
p = os.path.join(V, 'DESIGN.md')
s = open(p).read()
out = []
for line in s.split('\n'):
    m = re.match(r'^\| (C\d\d) \| (\w+) \| (.*?) \| (.*) \|$', line)
    if m and os.path.exists(os.path.join(V, 'mc', 'props', m.group(1).lower() + '.py')):
        pid = m.group(1)
        d = importlib.import_module('mc.props.' + pid.lower())
        b = getattr(d, 'BOUND', {}).get('quick', m.group(3)).replace('|', '/').replace('\n', ' ')
        ev = os.path.join(V, 'evidence', pid + '.json')
        cnt = ''
        if os.path.exists(ev):
            e = json.load(open(ev))
            c = e['coverage']
            if e.get('tier') == 'quick':
                cnt = f" [{c.get('evaluations')} evaluations" + (f", {c.get('states')} states, {c.get('transitions')} transitions" if 'states' in c else '') + f", {c.get('distinct_outcomes')} outcome classes, {e.get('wall_s')} s]"
        line = f'| {pid} | {d.LEVEL} | {b}{cnt} | {m.group(4)} |'
    out.append(line)
open(p, 'w').write('\n'.join(out))
print('DESIGN.md section 4.0 synced')
