#!/bin/bash
# applyfix.sh <diff> <property> <commit subject (without 'fix: ')> <body> <what failed (for known_findings)>
set -e
diff="$1"; prop="$2"; subj="$3"; body="$4"; what="$5"
git -C /repo apply --whitespace=nowarn "$diff" 2>/dev/null || patch -p1 -s -d /repo -i "$diff"
git -C /repo add -A
git -C /repo commit -q -m "fix: $subj" -m "$body"
c=$(git -C /repo log --format=%h -1)
python3 - "$prop" "$c" "$what" <<'PY'
import json,sys
prop,c,what=sys.argv[1:4]
p='/verif/known_findings.json'
d=json.load(open(p))
d['findings'].append({"status":"fixed","property":prop,"commit":c,"what":f"fixed: property={prop} {c} {what}"})
json.dump(d,open(p,'w'),indent=1)
PY
echo "committed $c: fix: $subj"
