#!/venv/bin/python
"""Run the repository's pinned baseline suite on a tree and compare with BASELINE.json stable_pass.
usage: baseline.py [repo_dir]   (default /repo).  Exit 0 iff every stable_pass test passed."""
import json, os, subprocess, sys, tempfile, xml.etree.ElementTree as ET
repo = os.path.abspath(sys.argv[1]) if len(sys.argv) > 1 else '/repo'
base = json.load(open('/root/.vp/BASELINE.json'))
want = set(base['stable_pass'])
fd, junit = tempfile.mkstemp(suffix='.xml', dir='/var/tmp'); os.close(fd)
env = dict(os.environ, PYTHONPATH=os.path.join(repo, 'src'), PYTHONDONTWRITEBYTECODE='1')
env.pop('PYTEZOS_VERIF', None)
extra = sys.argv[2:]
p = subprocess.run(['/venv/bin/python', '-m', 'pytest', '-q', '-p', 'no:cacheprovider', '--timeout=900',
                    '--continue-on-collection-errors', f'--junitxml={junit}'] + extra,
                   cwd=repo, env=env, stdout=subprocess.PIPE, stderr=subprocess.STDOUT, text=True)
passed = set()
import re
norm = lambda s: s.replace(re.sub(r'\W', '_', repo), '_repo').replace(repo.replace('/', '_'), '_repo')
for tc in ET.parse(junit).getroot().iter('testcase'):
    if not any(c.tag in ('failure', 'error', 'skipped') for c in tc):
        passed.add(norm(f"{tc.get('classname')}::{tc.get('name')}"))
os.unlink(junit)
missing = sorted(want - passed)
print(f'baseline: {len(want & passed)}/{len(want)} stable tests pass on {repo}')
for m in missing[:30]:
    print('  NOT PASSING:', m)
if missing:
    print(p.stdout[-3000:])
sys.exit(1 if missing else 0)
