#!/bin/bash
# wave_vd.sh <seeded dir names...> : verify then detect each, in parallel, one result file per dir under /var/tmp/w4/
mkdir -p /var/tmp/w4
printf '%s\n' "$@" | xargs -P 8 -I{} bash -c 'cd /verif; { tools/seeded.py verify seeded/{}; tools/seeded.py detect seeded/{}; } > /var/tmp/w4/{}.txt 2>&1'
grep -h -E "CONFIRMED|REJECTED|DETECTED|MISSED|ERROR" /var/tmp/w4/*.txt | grep -v conda
