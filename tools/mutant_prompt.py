#!/usr/bin/env python3
"""Print the prompt given to a fresh sub-agent for the seeded-change campaign (property text only; nothing else from /verif)."""
import json, sys
pid = sys.argv[1]
p = next(json.loads(l) for l in open('/verif/properties.jsonl') if json.loads(l)['id'] == pid)
print(f"""You are helping to measure how sensitive a verification effort is. You work ONLY inside the scratch git worktree /tmp/wt/{pid} (a checkout of the pytezos repository, a Python Tezos SDK). Python is /venv/bin/python; ALWAYS run things with PYTHONPATH=/tmp/wt/{pid}/src so that your worktree's sources are imported instead of the installed ones (check once with: PYTHONPATH=/tmp/wt/{pid}/src /venv/bin/python -c "import pytezos; print(pytezos.__file__)"). There is no network. Do not read or write anything under /verif (except running the one helper script named below) or under /repo.

A semantic property that pytezos is supposed to satisfy:

  {pid} - {p['title']}
  Statement: {p['statement']}
  Quantified over: {p['quantifier']['text']}
  Code that is meant to make it hold: {', '.join(p['anchors']['files'])}

YOUR TASK: produce TWO different, independent, realistic, small changes to the library source under src/pytezos (two separate patches, each made against the clean tree) that BREAK this property - the kind of regression a maintainer could plausibly introduce: an off-by-one, a wrong branch order, a dropped special case, a cache or cursor not reset, a shortcut that is wrong only for a rare input shape, two sites that each look fine alone - while the package still imports and the repository's own pinned test suite still passes. Prefer changes that need something specific to manifest (a particular input shape or value, a multi-step sequence of operations, a failure at a particular point, an unusual configuration, two cooperating sites), NOT ones that any ordinary use would expose at once. The two changes should differ in kind and location.

For each change i in (1, 2) create the directory /tmp/wt/{pid}/MUTANTS/m<i>/ containing:
  - patch.diff : `git diff` of that change alone against the clean tree (must apply with `patch -p1` at the repository root);
  - demo.py    : a standalone script (no pytest needed, no network) that exercises only public behaviour and shows the violation of the property AS STATED: it must exit 0 on the clean tree and exit non-zero (e.g. a failing assert with a clear message) with the patch applied;
  - notes.md   : 5-10 lines: what was changed, why it breaks the property, what it needs in order to manifest.
Verify each one yourself before finishing: (a) with the patch applied, `/verif/tools/baseline.py /tmp/wt/{pid}` prints `baseline: 1081/1081 stable tests pass` (takes about 40 s; this helper only runs the repository's own tests on your tree); (b) `cd /tmp/wt/{pid} && PYTHONPATH=/tmp/wt/{pid}/src /venv/bin/python MUTANTS/m<i>/demo.py; echo $?` gives non-zero with the patch and 0 on the clean tree (switch with `git checkout -- src` and `patch -p1 < MUTANTS/m<i>/patch.diff`; NEVER use `git stash`: the stash is shared by all worktrees of the repository and other agents work in sibling worktrees). If a change fails the pinned suite, pick another change. At the end restore the tree (`git checkout -- src tests`), leaving only the MUTANTS directory. Every shell command prints a harmless `WARNING conda.cli.condarc` line; ignore it.

Final message: at most 12 lines - for each mutant one line on what it changes and what it needs to manifest, and the verification results (baseline count, demo exit codes).""")
