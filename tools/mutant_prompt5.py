#!/usr/bin/env python3
"""Fifth-wave prompt (one change per property, time-boxed) for the seeded-change campaign: two flavours per property (property text only)."""
import json, sys
pid = sys.argv[1]
p = next(json.loads(l) for l in open('/verif/properties.jsonl') if json.loads(l)['id'] == pid)
print(f"""You are helping to measure how sensitive a verification effort is. You work ONLY inside the scratch git worktree /tmp/wt/{pid} (a checkout of the pytezos repository, a Python Tezos SDK). Python is /venv/bin/python; ALWAYS run things with PYTHONPATH=/tmp/wt/{pid}/src so that your worktree's sources are imported instead of the installed ones (check once with: PYTHONPATH=/tmp/wt/{pid}/src /venv/bin/python -c "import pytezos; print(pytezos.__file__)"). There is no network. Do not read or write anything under /verif (except running the one helper script named below) or under /repo. NEVER use `git stash` (it is shared with sibling worktrees used by other people); switch between trees with `git checkout -- src` and `patch -p1 < file`. Do not send messages to anyone.

A semantic property that pytezos is supposed to satisfy:

  {pid} - {p['title']}
  Statement: {p['statement']}
  Quantified over: {p['quantifier']['text']}
  Code that is meant to make it hold: {', '.join(p['anchors']['files'])}

Two earlier rounds of seeded regressions already covered single-site slips in the files above (off-by-one guards, dropped special cases), caches/memos keyed too coarsely, edits in helper modules, and inputs that are merely nested or large. YOUR TASK (time-boxed: finish within about 20 minutes of wall time; run the pinned suite at most three times): produce ONE further realistic, small change to the library source under src/pytezos that BREAKS this property while the package still imports and the repository's own pinned test suite still passes - of ONE of these flavours (your choice, whichever gives the more specific-to-manifest violation):
  (a) PLAUSIBLE REFACTOR: something a maintainer could submit as a clean-up or optimisation - a loop turned into a comprehension / dict / set, an early return added, an `isinstance` chain reordered, a shared helper introduced for two almost identical code paths, a default argument changed, `==` vs `is`, sorted() dropped or added, a try/except narrowed or widened - that is subtly wrong for some inputs of this property.
  (b) INTERACTION OR REJECTION: EITHER the violation needs two features or options of the library used together, each fine alone (e.g. a mode flag AND an annotation, an entrypoint AND an optimized form, a second object of the same class alive at the same time, an operation following a particular earlier one of another kind), OR - if the statement says that something must be rejected / raise / return None / be retried / not be retried - the library now accepts, swallows or mis-reports such a case for some inputs while all well-formed inputs behave as before.
Prefer changes whose violation needs something specific to manifest, so that a check trying only the simplest inputs would not see it - but it must be reachable through public behaviour with inputs a real user could have.

Create the directory /tmp/wt/{pid}/MUTANTS5/m1/ containing:
  - patch.diff : `git diff` of that change alone against the clean tree (must apply with `patch -p1` at the repository root);
  - demo.py    : a standalone script (no pytest needed, no network) that exercises only public behaviour and shows the violation of the property AS STATED: it must exit 0 on the clean tree and exit non-zero (e.g. a failing assert with a clear message) with the patch applied;
  - notes.md   : 5-10 lines: flavour, what was changed, why it breaks the property, what it needs in order to manifest.
Verify it yourself before finishing: (1) with the patch applied, `/verif/tools/baseline.py /tmp/wt/{pid}` prints `baseline: 1081/1081 stable tests pass` (about 40 s; this helper only runs the repository's own tests on your tree); (2) `cd /tmp/wt/{pid} && PYTHONPATH=/tmp/wt/{pid}/src /venv/bin/python MUTANTS5/m1/demo.py; echo $?` gives non-zero with the patch and 0 on the clean tree. If a change fails the pinned suite, pick another. At the end restore the tree (`git checkout -- src tests`), leaving only the MUTANTS5 directory. Every shell command prints a harmless `WARNING conda.cli.condarc` line; ignore it.

Final message: at most 10 lines - one line (flavour, what it changes, what it needs to manifest) and the verification results.""")
