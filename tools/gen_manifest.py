#!/venv/bin/python
"""Regenerate /verif/MANIFEST.json from the drivers under mc/props (one source of truth) and validate it."""
import importlib, json, os, sys
V = os.path.dirname(os.path.dirname(os.path.abspath(__file__)))
sys.path.insert(0, V); sys.path.insert(0, '/repo/src')
props = [json.loads(l) for l in open(os.path.join(V, 'properties.jsonl'))]
NA = {}  # property -> reason, for properties deliberately not claimed
na_path = os.path.join(V, 'not_applicable.json')
if os.path.exists(na_path):
    NA = json.load(open(na_path))
checks, na = [], []
for p in props:
    pid = p['id']
    f = os.path.join(V, 'mc', 'props', pid.lower() + '.py')
    if pid in NA or not os.path.exists(f):
        na.append({'property_id': pid, 'reason': NA.get(pid, 'check not built yet (work in progress); see DESIGN.md section 4')})
        continue
    d = importlib.import_module('mc.props.' + pid.lower())
    c = {
        'property_id': pid,
        'quick_cmd': f'./check {pid} --tier quick',
        'thorough_cmd': f'./check {pid} --tier thorough',
        'evidence_file': f'/verif/evidence/{pid}.json',
        'replay_cmd_template': f'./check {pid} --replay {{path}}',
        'engine': 'mc',
        'level_claimed': {'category': d.LEVEL,
                          'text': getattr(d, 'LEVEL_TEXT', (d.__doc__ or '').strip().split('\n\n')[0].replace('\n', ' ')),
                          'design_ref': getattr(d, 'DESIGN_REF', 'DESIGN.md section 4, ' + pid)},
        'level_note': getattr(d, 'LEVEL_NOTE', '; '.join(getattr(d, 'ASSUMPTIONS', [])) or 'bounds as stated in the evidence file'),
        'technique': getattr(d, 'TECHNIQUE', {
            'model_checking': 'explicit-state BFS over the real implementation in lock-step with a reference model (bounded, exhaustive)',
            'fault_enumeration': 'exhaustive enumeration of environment answer/fault sequences against the real code (bounded model checking of the environment tree)',
            'exploration': 'bounded exhaustive (small-scope) enumeration of the input space against a reference/differential oracle',
        }[d.LEVEL]),
    }
    checks.append(c)
hooks_commits = []
m = {
    'version': 1,
    'setup_cmd': 'cd /verif && ./setup.sh',
    'hooks': {'guard': 'PYTEZOS_VERIF', 'enable': 'no source hooks are needed: every seam (requests.request, sleep, randombytes, a fake RpcNode behind the real ShellQuery) is reachable from outside; the checks import /repo/src directly (editable install), so there is nothing to build',
              'baseline_off_cmd': 'cd /repo && /venv/bin/python -m pytest -ra -q -p no:cacheprovider --timeout=900 --continue-on-collection-errors',
              'source_commits': hooks_commits, 'add_only': True},
    'engines': [{'name': 'mc', 'path': '/verif/mc', 'serves_properties': [c['property_id'] for c in checks],
                 'kind_free_text': 'hand-written bounded exhaustive explorer for Python: explicit-state BFS with canonical-state dedup, DFS over environment answers, small-scope input enumeration; 16-way sharded; reference models in mc/ref'}],
    'checks': checks,
    'not_applicable': na,
    'notes': 'Exit 0 = held on everything explored (KNOWN-FINDING lines allowed, listed in known_findings.json); exit 1 + VIOLATION line otherwise; exit 2 = harness error. VERIF_SEED only rotates shard order.',
}
json.dump(m, open(os.path.join(V, 'MANIFEST.json'), 'w'), indent=1)
import jsonschema
jsonschema.validate(m, json.load(open('/root/.vp/MANIFEST.schema.json')))
print(f'MANIFEST.json: {len(checks)} checks, {len(na)} not claimed; valid')
