#!/bin/bash
# runall.sh [tier] [ids...] : run every (or the given) check once, print id, exit code, wall, summary line
tier=${1:-quick}; shift
cd /verif
ids="$@"; [ -z "$ids" ] && ids=$(ls mc/props/c*.py | sed 's#.*/c\([0-9]*\).py#C\1#')
for id in $ids; do
  s=$(date +%s.%N)
  out=$(./check $id --tier $tier 2>&1); rc=$?
  e=$(date +%s.%N)
  printf "%s rc=%s wall=%.1fs known=%s viol=%s | %s\n" $id $rc $(echo "$e - $s" | bc) $(echo "$out" | grep -c '^KNOWN-FINDING') $(echo "$out" | grep -c '^VIOLATION') "$(echo "$out" | grep "tier=$tier" | cut -c1-150)"
done
