#!/bin/bash
# Offline setup: nothing to build (pure Python against /repo/src); validate the reference models.
set -e
cd "$(dirname "$0")"
export PYTHONHASHSEED=0 PYTHONPATH="$PWD" PYTHONDONTWRITEBYTECODE=1
mkdir -p evidence violations
/venv/bin/python -W ignore -m mc.selftest 2> >(grep -v 'conda.cli.condarc' >&2)
/venv/bin/python -W ignore -m mc.conformance 2> >(grep -v 'conda.cli.condarc' >&2)
